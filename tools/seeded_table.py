#!/usr/bin/env python3
"""Regenerate the table of DESIGN.md section 9.6 from seeded/*/meta.json (between the markers
`<!-- seeded-table-begin -->` / `<!-- seeded-table-end -->`) and print the counts per round."""
import glob, json, os, re, collections
root = os.path.dirname(os.path.dirname(os.path.abspath(__file__)))
rows, per_round = [], collections.OrderedDict()
for f in sorted(glob.glob(os.path.join(root, "seeded", "*", "meta.json"))):
    m = json.load(open(f))
    rnd = int(re.search(r"round (\d+)", m["origin"]).group(1)) if re.search(r"round (\d+)", m["origin"]) else 1
    if m.get("detected") is False:
        fc = "not detectable by this oracle"
    elif m.get("detected_by_check_of") and not (m.get("check_strengthened") or m["detected_by"].startswith("MISSED")):
        fc = "caught by the %s check" % m["detected_by_check_of"]
    elif m.get("check_strengthened") or m["detected_by"].startswith("MISSED"):
        fc = "missed → strengthened" + (" (%s check)" % m["detected_by_check_of"] if m.get("detected_by_check_of") else "")
    else:
        fc = "caught"
    needs = m["needs_to_manifest"].replace("|", "/")
    needs = needs if len(needs) <= 150 else needs[:150] + " …"
    rows.append("| %s | %s | %d | %s | %s |" % (m["id"], m["property"], rnd, needs, fc))
    c = per_round.setdefault(rnd, [0, 0])
    c[1] += 1
    c[0] += fc.startswith("caught")
table = "\n".join(["| id | property | round | needs | first contact |", "|---|---|---|---|---|"] + rows)
p = os.path.join(root, "DESIGN.md")
s = open(p).read()
b, e = "<!-- seeded-table-begin -->", "<!-- seeded-table-end -->"
if b in s and e in s:
    s = s[:s.index(b) + len(b)] + "\n" + table + "\n" + s[s.index(e):]
    open(p, "w").write(s)
print(len(rows), "changes;", ", ".join("round %d: %d of %d" % (r, c[0], c[1]) for r, c in sorted(per_round.items())),
      "; caught at first contact:", sum(c[0] for c in per_round.values()))
