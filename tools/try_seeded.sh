#!/bin/bash
# usage: try_seeded.sh <property> <dir with patch.diff and demo.py> [extra check args]
# Applies the change to a scratch worktree of /repo, confirms demo fails there and passes on /repo,
# runs the baseline tests on it, then runs the property's quick check against it.
prop=$1; dir=$2; shift 2
wt=$(mktemp -d /tmp/seedwt.XXXX); rmdir $wt
git -C /repo worktree add -q $wt HEAD || exit 9
( cd $wt && git apply $dir/patch.diff ) || { echo "PATCH DOES NOT APPLY"; git -C /repo worktree remove --force $wt; exit 9; }
PYTHONPATH=/repo timeout 300 /venv/bin/python $dir/demo.py >/dev/null 2>&1; echo "demo on clean tree: exit $?"
PYTHONPATH=$wt timeout 300 /venv/bin/python $dir/demo.py >/dev/null 2>&1; echo "demo on changed tree: exit $?"
if [ -z "$SKIP_TESTS" ]; then ( cd $wt && timeout 900 /venv/bin/python -m pytest -q -p no:cacheprovider -n 8 --timeout=900 2>&1 | tail -1 ); fi
( cd /verif && EAO_REPO=$wt timeout -k 5 900 ./check $prop --tier quick --no-evidence "$@" > $wt.log 2>&1; echo "check exit $?" )
grep -E "^(minimised|regression|VIOLATION|C[0-9]+:)" $wt.log | cut -c1-500; rm -f $wt.log
git -C /repo worktree remove --force $wt; git -C /repo worktree prune
find /verif/replays -name "$prop-*.json" -newer $dir/patch.diff -delete 2>/dev/null
