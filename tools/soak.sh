#!/bin/bash
# usage: tools/soak.sh <first seed> <last seed> [props...]   - runs every quick check under many VERIF_SEED values
# (false-alarm soak on the unchanged tree; nothing is written to evidence/)
cd "$(dirname "$0")/.."
a=$1; b=$2; shift 2; props=${@:-C03 C10 C11 C15}
bad=0
for seed in $(seq $a $b); do for p in $props; do
  out=$(VERIF_SEED=$seed timeout -k 5 1200 ./check $p --tier quick --no-evidence 2>&1); rc=$?
  echo "$p seed=$seed exit=$rc $(echo "$out" | tail -1)"
  if [ $rc -ne 0 ]; then bad=1; echo "$out" | grep -E "^(minimised|HARNESS|VIOLATION|run )" | cut -c1-900; fi
done; done
exit $bad
