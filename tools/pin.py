#!/usr/bin/env python3
"""Add a replay file as pinned plan to known_findings.json (run by hand, never by a check).
usage: pin.py <replay.json> <entry id> <known|fixed> <commit or -> <what failed...>"""
import json, sys, os
VERIF = os.path.dirname(os.path.dirname(os.path.abspath(__file__)))
rp, eid, status, commit = sys.argv[1:5]
what = " ".join(sys.argv[5:])
doc = json.load(open(rp))
path = os.path.join(VERIF, "known_findings.json")
kf = json.load(open(path)) if os.path.exists(path) else {"findings": []}
kf["findings"] = [e for e in kf["findings"] if e["id"] != eid]
prop = doc["property"]
plan = {k: doc[k] for k in doc if k not in ("violation", "tree", "property")}
e = {"id": eid, "property": prop, "status": status, "what": what, "signature": doc["violation"]["signature"],
     "violation_when_recorded": doc["violation"], "plan": plan}
if status == "fixed":
    e["commit"] = commit
    e["record"] = "fixed: property=%s %s %s" % (prop, commit, what)
kf["findings"].append(e)
kf["findings"].sort(key=lambda e: e["id"])
json.dump(kf, open(path, "w"), indent=1, sort_keys=True)
print("pinned", eid)
