#!/usr/bin/env python3
"""Keep a confirmed sub-agent change under /verif/seeded/<id>/ (patch.diff, demo.py, notes.md, meta.json).
usage: keep_seeded.py <id> <property> <src dir> <round> <needs> <detected_by> [<check_strengthened>]"""
import json, os, shutil, sys
sid, prop, src, rnd, needs, caught = sys.argv[1:7]
strength = sys.argv[7] if len(sys.argv) > 7 and sys.argv[7] else None
d = os.path.join(os.path.dirname(os.path.dirname(os.path.abspath(__file__))), "seeded", sid)
os.makedirs(d, exist_ok=True)
for f in ("patch.diff", "demo.py", "notes.md"):
    shutil.copy(os.path.join(src, f), d)
m = {"id": sid, "property": prop,
     "origin": "independent sub-agent given only the property text and a scratch worktree (round %s, told which earlier changes to avoid)" % rnd,
     "needs_to_manifest": needs,
     "confirmed": "tools/try_seeded.sh %s seeded/%s: demo.py exits 0 on /repo and 1 on the changed tree; baseline suite 100 passed on the changed tree; ./check %s --tier quick with EAO_REPO=<changed tree> exits 1" % (prop, sid, prop),
     "detected_by": caught}
if strength:
    m["check_strengthened"] = strength
json.dump(m, open(os.path.join(d, "meta.json"), "w"), indent=1)
print("kept", sid)
