"""Shared machinery: seed derivation, batch runner, shrinking, replay files, known findings,
evidence files, exit codes.

Exit codes of every check: 0 = property held on everything explored (KNOWN-FINDING lines allowed),
1 = violation (a line `VIOLATION property=<id> replay=<path>` is printed), 2 = harness trouble
(time-out, dead worker, failure that does not replay, starved probe in the thorough tier).
"""
import concurrent.futures as cf
import contextlib
import faulthandler
import hashlib
import io
import json
import multiprocessing as mp
import os
import random
import signal
import subprocess
import sys
import time
import traceback
import warnings

VERIF = os.path.dirname(os.path.dirname(os.path.abspath(__file__)))
REPO = os.environ.get("EAO_REPO", "/repo")
PY = sys.executable

EXIT_OK, EXIT_VIOLATION, EXIT_HARNESS = 0, 1, 2


class HarnessError(Exception):
    """Something is wrong with the harness itself (never reported as a property violation)."""


class RunTimeout(BaseException):
    """CPU-time cap of a run exceeded.  Not an Exception: neither EAO, nor pyscipopt's callbacks, nor the
    executors' own `except Exception` clauses may swallow it."""


def derive_seed(base, prop, run_index):
    h = hashlib.sha256(("%d|%s|%d" % (int(base), prop, int(run_index))).encode()).digest()
    return int.from_bytes(h[:8], "big")


def tree_id():
    """git HEAD of /repo plus a hash of the working-tree sources that actually run."""
    try:
        head = subprocess.run(["git", "-C", REPO, "rev-parse", "--short", "HEAD"], capture_output=True,
                              text=True, timeout=20).stdout.strip()
    except Exception:
        head = "?"
    h = hashlib.sha256()
    d = os.path.join(REPO, "eaopack")
    for fn in sorted(os.listdir(d)):
        if fn.endswith(".py"):
            h.update(fn.encode())
            with open(os.path.join(d, fn), "rb") as f:
                h.update(f.read())
    return "%s+%s" % (head, h.hexdigest()[:12])


@contextlib.contextmanager
def quiet():
    """Swallow EAO's prints and library warnings (never read a clock, never draw randomness)."""
    buf = io.StringIO()
    with warnings.catch_warnings():
        warnings.simplefilter("ignore")
        with contextlib.redirect_stdout(buf):
            yield buf


def _alarm_handler(signum, frame):
    raise RunTimeout("run exceeded its CPU-time cap")


def _arm(cap_s):
    """Cap a run by the CPU time of this process (ITIMER_PROF), so that a loaded machine cannot turn a
    slow run into harness trouble; a hard wall-clock kill far above it only guards against real hangs."""
    old = signal.signal(signal.SIGPROF, _alarm_handler)
    signal.setitimer(signal.ITIMER_PROF, float(cap_s))
    return old


def _disarm(old):
    signal.setitimer(signal.ITIMER_PROF, 0)
    signal.signal(signal.SIGPROF, old)


# --------------------------------------------------------------------------- one run


def in_child(fn, *args):
    """Run fn(*args) in a forked child and return its (picklable) result.  The calling process never executes
    the code under test itself, so every run starts from the module state the parent had right after import -
    state that a run leaves behind at module or class level cannot reach the next run (or be masked by it)."""
    import pickle
    r, w = os.pipe()
    pid = os.fork()
    if pid == 0:
        code = 0
        try:
            # timers are not inherited across fork: give the child its own CPU-time ceiling (default action: die)
            signal.signal(signal.SIGPROF, signal.SIG_DFL)
            signal.setitimer(signal.ITIMER_PROF, 1800.0)
            os.close(r)
            try:
                res = fn(*args)
            except BaseException as e:  # noqa
                res = {"harness_error": "child: %s: %s\n%s" % (type(e).__name__, e, traceback.format_exc()[-2000:]), "violation": None}
            with os.fdopen(w, "wb") as f:
                pickle.dump(res, f, protocol=pickle.HIGHEST_PROTOCOL)
        except BaseException:  # noqa
            code = 3
        finally:
            os._exit(code)
    os.close(w)
    chunks = []
    with os.fdopen(r, "rb") as f:
        while True:
            b = f.read(1 << 20)
            if not b:
                break
            chunks.append(b)
    _, status = os.waitpid(pid, 0)
    data = b"".join(chunks)
    if not data:
        return {"harness_error": "child process died without a result (wait status %d)" % status, "violation": None}
    return pickle.loads(data)


def run_one(args):
    """Worker entry: one run in a forked child when the property asks for a fresh process per run."""
    from sim import registry
    mod = registry.get(args[0])
    if getattr(mod, "FRESH_PROCESS", False) and not os.environ.get("VERIF_NO_FORK"):
        out = in_child(_run_one, args)
        out.setdefault("run_index", args[2])
        out.setdefault("seed", derive_seed(args[1], args[0], args[2]))
        return out
    return _run_one(args)


def _run_one(args):
    """Generate the plan of run `run_index` from the seed and execute it.
    Returns a JSON-able dict; never raises (harness exceptions are reported in the dict)."""
    prop, base_seed, run_index, tier, cap_s, opts = args
    from sim import registry
    mod = registry.get(prop)
    seed = derive_seed(base_seed, prop, run_index)
    out = {"run_index": run_index, "seed": seed}
    faulthandler.dump_traceback_later(cap_s * 8 + 600, exit=True)
    old = _arm(cap_s)
    t0 = time.time()
    c0 = time.process_time()
    try:
        rng = random.Random(seed)
        plan = mod.gen_plan(rng, run_index, tier, opts or {})
        plan["property"] = prop
        plan["verif_seed"] = int(base_seed)
        plan["run_index"] = run_index
        plan["tier"] = tier
        from sim import seams
        # configuration of the process, drawn after the plan so that the plan itself does not depend on it
        er = rng.random()
        if not (opts and opts.get("no_env")):
            if er < 0.10:
                plan["env"] = {"pandas_cow": True}
            elif er < 0.125:
                plan["env"] = {"py_optimize": True}       # (a new interpreter per run: a few seconds each, hence the small share)
            elif er < 0.225:
                plan["env"] = {"tz": ["Asia/Tokyo", "America/Los_Angeles", "Europe/Berlin", "Asia/Kolkata"][int(er * 1000) % 4]}
        with seams.solver_guard():
            res = exec_with_env(prop, mod, plan, cap_s)
        out.update(res)
        if plan.get("env"):
            out["env"] = plan["env"]
        if res.get("violation") is not None or run_index % 500 < 2 or (opts and opts.get("keep_plan")):
            out["plan"] = plan
    except RunTimeout as e:
        # the CPU-time cap is a budget device, not an oracle: the run is abandoned without a verdict and counted
        # (main_check tolerates a handful per batch and turns more than that into harness trouble)
        out["abandoned"] = "cpu-cap %ds" % cap_s
    except BaseException as e:  # noqa - a harness defect must surface as exit 2, not be lost
        out["harness_error"] = "%s: %s\n%s" % (type(e).__name__, e, traceback.format_exc()[-3000:])
    finally:
        _disarm(old)
        faulthandler.cancel_dump_traceback_later()
    out["wall_s"] = time.time() - t0
    out["cpu_s"] = time.process_time() - c0
    return out


def execute_plan(prop, plan, cap_s=600):
    """Execute a given plan under a CPU-time cap (in a forked child when the property wants fresh processes)."""
    from sim import registry
    mod = registry.get(prop)
    if getattr(mod, "FRESH_PROCESS", False) and not os.environ.get("VERIF_NO_FORK") and not plan.get("_in_child"):
        return in_child(execute_plan, prop, dict(plan, _in_child=True), cap_s)
    old = _arm(cap_s)
    from sim import seams
    try:
        with seams.solver_guard():
            return exec_with_env(prop, mod, plan, cap_s)
    finally:
        _disarm(old)


def exec_with_env(prop, mod, plan, cap_s=600):
    """Execute a plan under the process configuration it names (plan['env'])."""
    from sim import seams
    env = plan.get("env") or {}
    if env.get("py_optimize") and not sys.flags.optimize:
        return exec_in_optimized_interpreter(prop, plan, cap_s)
    with seams.process_env(env):
        return mod.execute(plan)


def exec_in_optimized_interpreter(prop, plan, cap_s):
    """`python -O` (PYTHONOPTIMIZE): assert statements are compiled out.  Needs a new interpreter; the plan travels as a file,
    the result comes back as one JSON line."""
    import tempfile
    fd, path = tempfile.mkstemp(prefix="verif_plan_", suffix=".json")
    try:
        with os.fdopen(fd, "w") as f:
            json.dump(plan, f)
        env = dict(os.environ)
        env["PYTHONHASHSEED"] = env.get("PYTHONHASHSEED", "0")
        env.pop("PYTHONOPTIMIZE", None)
        try:
            p = subprocess.run([PY, "-O", "-m", "sim.cli", "exec-plan", prop, path, str(int(cap_s))], capture_output=True, text=True,
                               timeout=cap_s * 4 + 120, env=env, cwd=VERIF)
        except subprocess.TimeoutExpired:
            raise RunTimeout("optimised interpreter exceeded the wall allowance")
        line = [l for l in p.stdout.splitlines() if l.startswith("RESULT ")]
        if not line:
            raise HarnessError("optimised interpreter gave no result (exit %s): %s" % (p.returncode, (p.stderr or p.stdout)[-1500:]))
        res = json.loads(line[-1][7:])
        if res.get("_abandoned"):
            raise RunTimeout(res["_abandoned"])
        if res.get("_harness_error"):
            raise HarnessError(res["_harness_error"])
        return res
    finally:
        try:
            os.remove(path)
        except OSError:
            pass


def exec_plan_main(argv):
    """Entry of the optimised child interpreter: `sim.cli exec-plan <prop> <plan file> <cap>`."""
    prop, path, cap = argv[0], argv[1], int(argv[2])
    with open(path) as f:
        plan = json.load(f)
    try:
        res = execute_plan(prop, plan, cap)
    except RunTimeout as e:
        res = {"_abandoned": "cpu-cap in optimised interpreter: %s" % e}
    except BaseException as e:  # noqa
        res = {"_harness_error": "%s: %s\n%s" % (type(e).__name__, e, traceback.format_exc()[-2000:])}
    sys.stdout.write("\nRESULT " + json.dumps(res, default=_jsonable) + "\n")
    sys.stdout.flush()
    return 0


def _jsonable(o):
    try:
        import numpy as np
        if isinstance(o, np.generic):
            return o.item()
        if isinstance(o, np.ndarray):
            return o.tolist()
    except Exception:
        pass
    if isinstance(o, (set, frozenset, tuple)):
        return sorted(o) if isinstance(o, (set, frozenset)) else list(o)
    return str(o)


def _exec_for_pool(args):
    prop, plan, cap_s = args
    try:
        return execute_plan(prop, plan, cap_s)
    except BaseException as e:  # noqa
        return {"harness_error": "%s: %s" % (type(e).__name__, e), "violation": None}


def run_plans_in_pool(prop, plans, cap_s):
    if not plans:
        return []
    ctx = mp.get_context("fork")
    with cf.ProcessPoolExecutor(max_workers=min(len(plans), n_workers()), mp_context=ctx) as ex:
        futs = [ex.submit(_exec_for_pool, (prop, p, cap_s)) for p in plans]
        out = []
        for f in futs:
            try:
                out.append(f.result(timeout=cap_s * 8 + 900))
            except Exception as e:  # noqa
                out.append({"violation": None, "harness_error": "pinned plan: %s: %s" % (type(e).__name__, e)})
        return out


# --------------------------------------------------------------------------- batch


def n_workers():
    w = os.environ.get("VERIF_WORKERS")
    if w:
        return max(1, int(w))
    return max(1, min(16, (os.cpu_count() or 2)))


def run_batch(prop, base_seed, tier, n_runs, wall_budget_s, cap_s=180, opts=None, workers=None, start_index=0,
              stop_on_violation=True):
    """Run up to n_runs simulated runs (run indices start_index..) on a fork pool.  Stops submitting
    when the wall budget is used up or a violation was found.  Returns the list of run dicts sorted
    by run index (so that aggregation does not depend on completion order)."""
    workers = workers or n_workers()
    t0 = time.time()
    results = []
    ctx = mp.get_context("fork")
    nxt = start_index
    end = start_index + n_runs
    pending = set()
    stop = False
    broken = None
    with cf.ProcessPoolExecutor(max_workers=workers, mp_context=ctx) as ex:
        try:
            while (pending or (nxt < end and not stop)):
                while not stop and nxt < end and len(pending) < workers * 2:
                    if time.time() - t0 > wall_budget_s:
                        stop = True
                        break
                    pending.add(ex.submit(run_one, (prop, base_seed, nxt, tier, cap_s, opts)))
                    nxt += 1
                if not pending:
                    break
                done, pending = cf.wait(pending, timeout=cap_s * 8 + 900, return_when=cf.FIRST_COMPLETED)
                if not done:
                    broken = "no worker finished within %d s" % (cap_s * 8 + 900)
                    break
                for f in done:
                    r = f.result()
                    results.append(r)
                    if stop_on_violation and (r.get("violation") is not None):
                        stop = True
        except cf.process.BrokenProcessPool as e:
            broken = "worker died: %s" % e
        if broken:
            for f in pending:
                f.cancel()
            ex.shutdown(wait=False, cancel_futures=True)
    results.sort(key=lambda r: r["run_index"])
    return results, broken, time.time() - t0


# --------------------------------------------------------------------------- signatures, shrinking


def same_violation(v, sig):
    return v is not None and v.get("signature") == sig


def ddmin_steps(prop, plan, sig, budget, exec_fn, key="plan"):
    """Delta debugging over the list plan[key]; keeps the violation signature `sig`.
    budget: dict with 'n' (candidate executions left) and 'deadline' (time.time())."""
    steps = list(plan[key])
    n = 2
    while len(steps) >= 2 and budget["n"] > 0 and time.time() < budget["deadline"]:
        chunk = max(1, len(steps) // n)
        subsets = [steps[i:i + chunk] for i in range(0, len(steps), chunk)]
        reduced = False
        for i in range(len(subsets)):
            if budget["n"] <= 0 or time.time() > budget["deadline"]:
                break
            cand_steps = [s for j, sub in enumerate(subsets) if j != i for s in sub]
            cand = dict(plan)
            cand[key] = cand_steps
            budget["n"] -= 1
            r = exec_fn(prop, cand)
            if same_violation(r.get("violation"), sig) and not r.get("harness_error"):
                steps = cand_steps
                n = max(n - 1, 2)
                reduced = True
                break
        if not reduced:
            if n >= len(steps):
                break
            n = min(len(steps), n * 2)
    out = dict(plan)
    out[key] = steps
    return out


def shrink(prop, plan, violation, max_exec=120, max_wall=120):
    """ddmin over steps, then property-specific simplifications, while the violation *signature*
    persists.  Candidates that turn into a listed known finding do not count as failing (the
    executor itself never reports known triggers as violations)."""
    from sim import registry
    mod = registry.get(prop)
    sig = violation["signature"]
    budget = {"n": max_exec, "deadline": time.time() + max_wall}

    def exec_fn(p, cand):
        try:
            return execute_plan(p, cand, cap_s=120)
        except BaseException as e:  # noqa
            return {"violation": None, "harness_error": str(e)}
    cur = plan
    for key in getattr(mod, "SHRINK_KEYS", ["plan"]):
        if isinstance(cur.get(key), list):
            cur = ddmin_steps(prop, cur, sig, budget, exec_fn, key=key)
    simp = getattr(mod, "simplify_candidates", None)
    if simp is not None:
        progress = True
        while progress and budget["n"] > 0 and time.time() < budget["deadline"]:
            progress = False
            for cand in simp(cur):
                if budget["n"] <= 0 or time.time() > budget["deadline"]:
                    break
                budget["n"] -= 1
                r = exec_fn(prop, cand)
                if same_violation(r.get("violation"), sig) and not r.get("harness_error"):
                    cur = cand
                    progress = True
                    break
    final = exec_fn(prop, cur)
    if not same_violation(final.get("violation"), sig):
        cur, final = plan, exec_fn(prop, plan)
    return cur, final.get("violation")


# --------------------------------------------------------------------------- replay files


def write_replay(prop, plan, violation, name=None):
    d = os.path.join(VERIF, "replays")
    os.makedirs(d, exist_ok=True)
    doc = dict(plan)
    doc["property"] = prop
    doc["tree"] = tree_id()
    doc["violation"] = violation
    name = name or "%s-%s-%s.json" % (prop, plan.get("verif_seed", 0), plan.get("run_index", 0))
    path = os.path.join(d, name)
    with open(path, "w") as f:
        json.dump(doc, f, indent=1, sort_keys=True)
    return path


def replay_in_fresh_interpreter(prop, path, timeout=900):
    """Run `check <prop> --replay <path>` in a new process; returns (exit code, stdout)."""
    env = dict(os.environ)
    env["PYTHONHASHSEED"] = "0"
    p = subprocess.run([PY, os.path.join(VERIF, "check"), prop, "--replay", path], capture_output=True,
                       text=True, timeout=timeout, env=env)
    return p.returncode, p.stdout + p.stderr


def do_replay(prop, path):
    """Entry for `check <prop> --replay <file>`: exit 1 + VIOLATION line iff the recorded signature
    is produced again, exit 0 if the plan runs clean, exit 2 otherwise."""
    with open(path) as f:
        doc = json.load(f)
    want = (doc.get("violation") or {}).get("signature")
    res = execute_plan(prop, doc)
    if res.get("harness_error"):
        print("HARNESS-ERROR during replay: %s" % res["harness_error"])
        return EXIT_HARNESS
    v = res.get("violation")
    if v is None:
        print("replay of %s: no violation on this tree" % path)
        if res.get("known_hits"):
            for k in res["known_hits"]:
                print("KNOWN-FINDING: property=%s %s" % (prop, k))
        return EXIT_OK
    print("violation: %s" % json.dumps(v, sort_keys=True))
    if want is None or v.get("signature") == want:
        print("VIOLATION property=%s replay=%s" % (prop, path))
        return EXIT_VIOLATION
    print("replay produced a different violation signature than recorded (%s)" % want)
    print("VIOLATION property=%s replay=%s" % (prop, path))
    return EXIT_VIOLATION


# --------------------------------------------------------------------------- known findings


def load_known(prop):
    path = os.path.join(VERIF, "known_findings.json")
    if not os.path.exists(path):
        return []
    with open(path) as f:
        doc = json.load(f)
    return [e for e in doc.get("findings", []) if e.get("property") == prop]


# --------------------------------------------------------------------------- aggregation + evidence


def merge_counts(dst, src):
    for k, v in (src or {}).items():
        dst[k] = dst.get(k, 0) + v


def write_evidence(prop, tier, seed, coverage, assumptions, wall_s, violations):
    d = os.path.join(VERIF, "evidence")
    os.makedirs(d, exist_ok=True)
    doc = {"property_id": prop, "tier": tier, "seed": int(seed), "level": "exploration",
           "coverage": coverage, "assumptions": assumptions, "wall_s": round(float(wall_s), 2),
           "violations": int(violations)}
    tmp = os.path.join(d, "%s.json.tmp" % prop)
    with open(tmp, "w") as f:
        json.dump(doc, f, indent=1, sort_keys=True)
    os.replace(tmp, os.path.join(d, "%s.json" % prop))


COMPONENTS_REAL = ["eaopack.basic_classes", "eaopack.assets", "eaopack.portfolio", "eaopack.optimization",
                   "eaopack.stoch_lin_prog", "eaopack.serialization", "eaopack.io", "pandas", "numpy",
                   "scipy.sparse", "cvxpy", "solver back-ends CLARABEL/SCIPY(HiGHS)/SCIP/SCS/OSQP (wrapped, not replaced)"]


def main_check(prop, argv):
    """Common command line of every check."""
    import argparse
    from sim import registry
    ap = argparse.ArgumentParser(prog="check " + prop)
    ap.add_argument("--tier", default=os.environ.get("VERIF_TIER", "quick"), choices=["quick", "thorough"])
    ap.add_argument("--replay", default=None)
    ap.add_argument("--runs", type=int, default=None)
    ap.add_argument("--budget", type=float, default=None, help="wall-clock budget in seconds")
    ap.add_argument("--start", type=int, default=0)
    ap.add_argument("--no-evidence", action="store_true")
    ap.add_argument("--no-shrink", action="store_true")
    ap.add_argument("--digests", default=None, help="write per-run event-log digests to this file")
    a = ap.parse_args(argv)
    if a.replay:
        return do_replay(prop, a.replay)
    mod = registry.get(prop)
    seed = int(os.environ.get("VERIF_SEED", mod.DEFAULT_SEED.get(a.tier, 1)))
    print("check %s tier=%s VERIF_SEED=%d tree=%s workers=%d" % (prop, a.tier, seed, tree_id(), n_workers()))
    sys.stdout.flush()
    t0 = time.time()
    tier_cfg = mod.TIERS[a.tier]
    n_runs = a.runs or tier_cfg["runs"]
    budget = a.budget or tier_cfg["budget_s"]
    cap = tier_cfg.get("cap_s", 180)

    # 1. pinned plans: known findings and fixed regressions
    known = load_known(prop)
    known_lines, pinned_runs = [], 0
    # (executed in worker processes: the parent must not run solver code before it forks the pool)
    pinned = [e for e in known if e.get("plan")]
    if os.environ.get("VERIF_SKIP_PINNED"):
        pinned = []      # developer switch: what does exploration alone find (used when trying seeded changes)
    pinned_res = run_plans_in_pool(prop, [dict(e["plan"], _pinned=e["id"]) for e in pinned], cap)
    for e, r in zip(pinned, pinned_res):
        plan = e["plan"]
        pinned_runs += 1
        if r.get("harness_error"):
            print("HARNESS-ERROR in pinned plan %s: %s" % (e["id"], r["harness_error"]))
            return EXIT_HARNESS
        v = r.get("violation")
        if e.get("status") == "known":
            if v is not None and v.get("signature") == e.get("signature"):
                known_lines.append("KNOWN-FINDING: property=%s %s" % (prop, e["what"]))
            elif v is not None:
                path = write_replay(prop, plan, v, name="%s-pinned-%s.json" % (prop, e["id"]))
                print("pinned plan %s fails differently than recorded: %s" % (e["id"], v.get("signature")))
                print("VIOLATION property=%s replay=%s" % (prop, path))
                return EXIT_VIOLATION
            else:
                print("note: known finding %s no longer reproduces on this tree" % e["id"])
        else:  # fixed: regression test, suppresses nothing
            if v is not None:
                path = write_replay(prop, plan, v, name="%s-regression-%s.json" % (prop, e["id"]))
                print("regression of fixed finding %s: %s" % (e["id"], json.dumps(v, sort_keys=True)))
                print("VIOLATION property=%s replay=%s" % (prop, path))
                return EXIT_VIOLATION
    for ln in known_lines:
        print(ln)

    # 2. seeded exploration
    opts = {"known": [e["id"] for e in known if e.get("status") == "known"]}
    results, broken, wall = run_batch(prop, seed, a.tier, n_runs, budget, cap_s=cap, opts=opts, start_index=a.start)
    abandoned = [r for r in results if r.get("abandoned")]
    results = [r for r in results if not r.get("abandoned")]
    harness = [r for r in results if r.get("harness_error")]
    viol = [r for r in results if r.get("violation") is not None]
    for r in results:
        # the process configuration is part of the state a run explores
        if r.get("env") and r.get("pairs"):
            tag = "|cfg:" + ",".join(sorted("%s=%s" % kv for kv in r["env"].items()))
            r["pairs"] = [p_ + tag for p_ in r["pairs"]]
    agg = mod.aggregate(results)
    agg["pinned_plans_run"] = pinned_runs
    agg["runs_abandoned_at_cpu_cap"] = [r["run_index"] for r in abandoned]
    agg["process_configurations"] = {"default": sum(1 for r in results if not r.get("env")),
                                     "pandas_copy_on_write": sum(1 for r in results if (r.get("env") or {}).get("pandas_cow")),
                                     "python_-O_(asserts_compiled_out,_new_interpreter_per_run)": sum(1 for r in results if (r.get("env") or {}).get("py_optimize")),
                                     "machine_in_another_time_zone": sum(1 for r in results if (r.get("env") or {}).get("tz"))}
    agg["slowest_runs_cpu_s"] = [[r["run_index"], round(r.get("cpu_s", 0.), 1)] for r in
                                 sorted(results, key=lambda r: -r.get("cpu_s", 0.))[:5]]
    if a.digests:
        with open(a.digests, "w") as f:
            for r in results:
                f.write("%d %s\n" % (r["run_index"], r.get("digest")))
    rc = EXIT_OK
    if viol:
        r = min(viol, key=lambda r: r["run_index"])
        plan, v = r["plan"], r["violation"]
        print("run %d (seed %d) violates: %s" % (r["run_index"], r["seed"], json.dumps(v, sort_keys=True)))
        sys.stdout.flush()
        if not a.no_shrink:
            plan, v2 = shrink(prop, plan, v)
            v = v2 or v
        path = write_replay(prop, plan, v)
        code, out = replay_in_fresh_interpreter(prop, path)
        if code == EXIT_VIOLATION:
            print("minimised: %s" % json.dumps(v, sort_keys=True))
            print("VIOLATION property=%s replay=%s" % (prop, path))
            rc = EXIT_VIOLATION
        else:
            print("HARNESS-ERROR: violation did not replay in a fresh interpreter (exit %d)\n%s" % (code, out[-2000:]))
            rc = EXIT_HARNESS
    if harness and rc == EXIT_OK:
        print("HARNESS-ERROR in %d run(s); first: run %d: %s" % (len(harness), harness[0]["run_index"],
                                                                 harness[0]["harness_error"]))
        rc = EXIT_HARNESS
    if abandoned:
        print("NOTE: %d run(s) abandoned at the CPU-time cap without a verdict: %s" % (len(abandoned), [r["run_index"] for r in abandoned][:10]))
        if len(abandoned) > max(2, (len(results) + len(abandoned)) // 200) and rc == EXIT_OK:
            print("HARNESS-ERROR: too many runs hit the CPU-time cap")
            rc = EXIT_HARNESS
    if broken and rc == EXIT_OK:
        print("HARNESS-ERROR: %s" % broken)
        rc = EXIT_HARNESS
    if not results and rc == EXIT_OK:
        print("HARNESS-ERROR: no run completed")
        rc = EXIT_HARNESS
    total_wall = time.time() - t0
    n_ok = len([r for r in results if not r.get("harness_error")])
    agg.setdefault("evaluations", n_ok)
    agg["runs_per_hour"] = int(n_ok / max(wall, 1e-9) * 3600)
    agg["seeds_per_hour"] = agg["runs_per_hour"]
    agg["components_real"] = COMPONENTS_REAL
    agg["components_stub"] = mod.STUBS
    agg["tree"] = tree_id()
    agg["workers"] = n_workers()
    agg["known_findings_reported"] = known_lines
    if a.tier == "thorough" and rc == EXIT_OK:
        starved = [k for k, v in agg.get("probes", {}).items() if v == 0 and k in getattr(mod, "REQUIRED_PROBES", [])]
        if starved:
            print("HARNESS-ERROR: reach probes stuck at zero: %s" % starved)
            rc = EXIT_HARNESS
    if os.environ.get("VERIF_VERBOSE"):
        print("slowest runs (index, CPU s): %s" % agg["slowest_runs_cpu_s"])
    if not a.no_evidence and n_ok > 0:
        write_evidence(prop, a.tier, seed, agg, mod.ASSUMPTIONS, total_wall, len(viol))
    print("%s: %d runs, %d distinct non-trivial, %.1f s, exit %d" % (prop, n_ok, agg.get("distinct_nontrivial", 0),
                                                                   total_wall, rc))
    return rc
