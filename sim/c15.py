"""C15 - fixing a time window pins exactly that part of the solution.

Simulated world: a rolling desk.  A simulated clock 'now' advances over the optimisation grid; a
price feed delivers curves (new / dropped / duplicated / stale); every tick the desk rebuilds the
problem with the steps before 'now' fixed to the solution it holds and re-optimises; solver outages
and process restarts are injected; the held solution is state carried through the history.
Oracle: invariants F1-F6 of DESIGN.md section 3.3 against a window-less fresh twin.
"""
import copy
import json
import os

import numpy as np
import pandas as pd

from sim import specs, canon, core, seams, refsolve

ID = "C15"
DEFAULT_SEED = {"quick": 1515, "thorough": 2515}
TIERS = {"quick": {"runs": 1200, "budget_s": 100, "cap_s": 150},
         "thorough": {"runs": 36000, "budget_s": 1500, "cap_s": 240}}
STUBS = ["SimClock ('now' over the grid; EAO never reads it)", "PriceFeed (new/drop/dup/stale curves)",
         "SimSolver outages (raise, status:<s>) on the desk's solve", "restart (all Python objects dropped; spec and JSON-encoded solution survive)",
         "the desk (client loop)"]
ASSUMPTIONS = [
    "a variable 'belongs to a step in the window' iff at least one of its mapping rows has time_step in the window",
    "window dates are placed between two grid points or exactly on one; a step whose time point equals the date belongs to the window ('<='), as in the repository's own test_fixing_results (the docstring's 'before' is read that way)",
    "zone-aware grids receive zone-aware window dates",
    "F5 (unchanged value) is claimed only when the held solution is the accepted optimum of the same portfolio, grid and price curve; "
    "if the fixed re-solve reports infeasible and scipy.optimize.milp agrees, the tick is counted inconclusive (solver tolerance), not a violation",
    "status 'inaccurate' makes no claim (as in C03)",
    "restart rebuilds the portfolio from its spec (JSON round trip of portfolios is C11's subject) and the solution from its JSON text",
]
REQUIRED_PROBES = ["split_desk", "window_cuts_coarse_interval", "window_cuts_order", "scale_var_fixed", "boolean_fixed",
                   "transport_var_fixed", "x_from_slp", "date_form_aware_grid", "none_grid_date_form", "multi_row_var_fixed"]
SHRINK_KEYS = ["ticks"]

VALUE_TOL = 1e-6
X_TOL = 1e-6

# --------------------------------------------------------------------------- generation


def _freq_multiple(f, m):
    base = {"15min": (15, "min"), "h": (1, "h"), "4h": (4, "h"), "d": (1, "d")}.get(f)
    return "%d%s" % (base[0] * m, base[1]) if base else None


def gen_plan(rng, run_index, tier, opts):
    mip = rng.random() < 0.3
    env = specs.Env(rng, max_T=(24 if mip else 72))
    if not mip and rng.random() < 0.08:
        env.freqs = ["MS", "W-MON"]      # calendar grids: steps of unequal length
    env.periodic_p = max(getattr(env, "periodic_p", 0), 0.3)   # periodic assets: variables merged across steps, mapping index with gaps
    env.coarse_p = max(getattr(env, "coarse_p", 0), 0.3)
    g = specs.gen_grid(env)
    w = env.world
    f = w["grids"][g]["freq"]
    kinds = ["simple", "contract", "storage", "orderbook", "orderbook", "scaled", "multi", "multi", "transport", "transport",
             "storage2", "structured"]
    if mip:
        kinds += ["chp", "chp", "chp", "plant", "linked"]
    P = specs.gen_portfolio(env, grid_freq=f, mip_ok=mip, market_p=1.0, kinds=kinds, n_assets=rng.randint(1, 4),
                            n_nodes=rng.choice([2, 2, 3, 1]))
    is_mip = any(specs.is_mip_asset(w, a) for a in w["portfolios"][P]["assets"])
    n_curves = rng.randint(2, 4)
    curves = [specs.gen_prices(env, g, form="dict_nd") for _ in range(n_curves)]
    gi = specs.grid_info(w, g)
    T = gi.T
    world = specs.clean_world(w)
    if is_mip:
        solver = rng.choice([None, "SCIP", "SCIP", "SCIPY"])
    else:
        solver = rng.choice(["SCIPY", "SCIPY", "SCIPY", None, "CLARABEL"])
    n_ticks = rng.randint(2, 6)
    now = 0
    ticks = []
    cur = 0
    seen = [0]
    reuse = rng.random() < 0.3
    tz = world["grids"][g]["tz"]
    for k in range(n_ticks):
        now = min(T - 1, now + rng.randint(1, max(1, T // 3)))
        r = rng.random()
        if r < 0.5:
            feed = "new"
            cur = rng.randrange(n_curves)
        elif r < 0.7:
            feed = "drop"
        elif r < 0.85:
            feed = "dup"
        else:
            feed = "stale"
            cur = rng.choice(seen)
        seen.append(cur)
        form = rng.choice(["mask", "list", "date", "date", "intidx", "intlist", "npboollist"])
        if rng.random() < 0.06:
            now = T          # the whole horizon
        tk = {"now": now, "feed": feed, "curve": cur, "form": form,
              "grid_arg": rng.choice(["explicit", "explicit", "none"]), "reuse_dict": reuse}
        if form != "date" and rng.random() < 0.35 and now >= 2:
            # the property speaks of all window positions: fix steps [lo, now) only
            tk["lo"] = rng.randint(1, now - 1)
        if form != "date" and rng.random() < 0.25 and now >= 3 and now < T:
            # ... including windows with gaps ("peak hours already traded"): an explicit set of steps
            lo_ = tk.get("lo", 0)
            cand = list(range(lo_, now))
            keep = sorted(rng.sample(cand, rng.randint(1, max(1, len(cand) - 1))))
            if rng.random() < 0.5 and T - now >= 2:
                keep.append(rng.randint(now + 1, T - 1))   # and an isolated later step
            tk["steps"] = keep
        if form == "date" and now >= T:
            now = T - 1
            tk["now"] = now
        if form == "date" and rng.random() < 0.12:
            tk["date_pos"] = rng.choice(["last_step", "beyond"])   # a date inside the last step / after the horizon pins everything
            now = T
            tk["now"] = T
        if form in ("intidx", "intlist") and rng.random() < 0.4:
            # indices are taken as given: any order, repeats allowed (the same set of steps)
            tk["idx_order"] = rng.choice(["rev", "rot", "zip", "dup", "neg", "neg"])
        if form != "date" and rng.random() < 0.05:
            tk["steps"] = []   # an empty window pins nothing
            tk["empty"] = True
        if rng.random() < 0.1 and len(world["nodes"]) > 1:
            # nodal restrictions of one node skipped (as a structured asset does for its wrapper): fixing must not care
            used_nodes = sorted({world["nodes"][n]["name"] for a in world["portfolios"][P]["assets"] for n in specs.asset_nodes(world, a)})
            if used_nodes:
                tk["skip_nodes"] = [rng.choice(used_nodes)]
        if form == "date":
            tp = gi.timepoints[now - 1]
            step_ = gi.timepoints[1] - gi.timepoints[0]
            nxt = gi.timepoints[now] if now < T else tp + step_
            t = tp + (nxt - tp) * rng.choice([0.5, 0.5, 0.02, 0.98])   # mid-step, just after a grid point, just before the next
            if tk.get("date_pos") == "beyond":
                t = tp + 3 * step_
            wall = t.tz_convert("UTC").tz_localize(None) if t.tzinfo is not None else t
            tk["date"] = {"$t": rng.choice(["ts", "datetime"]), "v": specs.iso(wall), "tz": ("UTC" if tz is not None else None)}
            if tz is not None:
                # the date may be given in the grid's zone or in another one (same instant)
                tk["date_tz"] = rng.choice([tz, tz, "UTC", "Asia/Tokyo"])
        fr = rng.random()
        if fr < 0.12:
            tk["solver_fault"] = "raise"
        elif fr < 0.22:
            tk["solver_fault"] = "status:" + rng.choice(seams.STATUSES)
        if rng.random() < 0.12:
            tk["restart"] = True
        xr = rng.random()
        if xr < 0.12:
            tk["x_source"] = "arbitrary"
        elif xr < 0.22 and not is_mip:
            tk["x_source"] = "slp"
        elif xr < 0.3:
            tk["x_source"] = "longer"
        elif xr < 0.38:
            tk["x_source"] = "off_bounds"
        ticks.append(tk)
    split = None
    if rng.random() < float(os.environ.get("VERIF_C15_SPLIT_P", 0.14)) and T >= 6:   # (the variable is a development knob)
        # the desk builds its problems with setup_split_optim_problem (documented to take the same window): interval sizes that
        # give at least two intervals, also ones that do not divide the horizon and calendar-anchored ones (partial first interval)
        step_ = gi.timepoints[1] - gi.timepoints[0]
        mult = [m_ for m_ in (2, 3, 4, 6, 8, 12, 24) if m_ * 2 <= T + m_ - 1 and m_ < T]
        cand = [_freq_multiple(f, m_) for m_ in mult]
        cand = [c_ for c_ in cand if c_]
        if f in ("h", "15min", "4h"):
            cand += ["d"]
        if f == "d":
            cand += ["W", "2d"]
        if cand:
            split = {"interval_size": rng.choice(cand)}
    if split:
        for tk in ticks:
            tk["grid_arg"] = "explicit"          # (the split set-up needs the grid as an argument)
            if tk.get("x_source") == "slp":
                tk.pop("x_source")
    plan = {"world": world, "grid": g, "portfolio": P, "curves": curves, "solver": solver, "ticks": ticks,
            "cfg": {"mip": is_mip, "T": T}}
    if split:
        plan["split"] = split
    # (round 10; drawn last so that the other choices of a run do not depend on them)
    for tk in ticks:
        if is_mip and rng.random() < 0.12:
            tk["soft_solve"] = True              # the desk looks at the relaxation of the fixed problem: the window stays pinned there too
        r_ = rng.random()
        if r_ < 0.07:
            tk["x_dtype"] = "int"                # the held schedule handed over as whole numbers in an integer array
        elif r_ < 0.11:
            tk["x_dtype"] = "f32"
        if rng.random() < 0.15:
            # other use of the live portfolio between the solve that gave x and the rebuild with the window
            tk["between"] = rng.choice(["to_json", "to_json", "params_tree", "setup_plain", "to_json_assets", "set_timegrid", "cost_samples"])
    # window dates exactly on a grid point: that step belongs to the window (`<=`), as the repository's own test of the feature
    # (tests/test_optimization.py::test_fixing_results, a date on a point of a daily grid) has it
    for tk in ticks:
        if tk["form"] == "date" and not tk.get("date_pos") and 1 <= tk["now"] <= T and rng.random() < 0.2:
            tp = gi.timepoints[tk["now"] - 1]
            wall = tp.tz_convert("UTC").tz_localize(None) if tp.tzinfo is not None else tp
            tk["date"] = dict(tk["date"], v=specs.iso(wall))
            tk["date_on_grid"] = True
    # a window given as a plain datetime.date (the documented form: "alternatively date"): midnight of that day, on naive grids
    if tz is None and not world["grids"][g].get("date_zone"):
        mids = [i_ for i_, tp_ in enumerate(gi.timepoints) if (tp_.hour, tp_.minute, tp_.second) == (0, 0, 0) and i_ < T - 1]
        for tk in ticks:
            if tk["form"] == "date" and not tk.get("date_pos") and mids and rng.random() < 0.2:
                j_ = rng.choice(mids)
                tk["now"] = j_ + 1
                tk["date"] = {"$t": "date", "v": gi.timepoints[j_].date().isoformat()}
                tk["date_on_grid"] = True
                tk["date_plain"] = True
                tk.pop("date_tz", None)
    # (round 11, drawn after everything else)
    all_nodes = sorted({world["nodes"][n]["name"] for a in world["portfolios"][P]["assets"] for n in specs.asset_nodes(world, a)})
    for tk in ticks:
        if rng.random() < 0.12:
            tk["positional"] = True          # arguments handed over by position, in the documented order
        if rng.random() < 0.04 and all_nodes:
            tk["skip_nodes"] = list(all_nodes)   # no nodal restriction at all (the problem of the assets side by side)
        if rng.random() < 0.12:
            tk["report_first"] = True        # the report (extract_output) is drawn up before the desk reads x from the result object
    # (round 12) a set-up with a window that EAO refuses (price arrays made for another horizon), and rebuilds without any window
    for tk in ticks:
        if rng.random() < 0.08:
            tk["refused_first"] = True
        if rng.random() < 0.06 and tk["form"] != "date":
            tk["no_window"] = True           # fix_time_window=None: nothing is pinned, whatever was asked for before
        if rng.random() < 0.10 and not is_mip and not split:
            tk["slp_extend"] = True          # the fixed problem is extended to an SLP (make_slp) before it is solved
    return plan


# --------------------------------------------------------------------------- reference feasibility


def reference_solve(op, bools):
    """('optimal'|'infeasible'|'unknown', value, verified witness) - see sim/refsolve.py"""
    return refsolve.solve(op, bools)


def bool_vars(op):
    m = op.mapping
    if "bool" not in m.columns:
        return []
    mm = m[~m.index.duplicated(keep="first")]
    return [int(i) for i in mm.index[mm["bool"].fillna(False).astype(bool)]]


# --------------------------------------------------------------------------- executor


def _ordered(W, how, T=None):
    """The steps of an index-form window in the order the plan asks for (same set of steps)."""
    lst = sorted(W)
    if how == "rev":
        return lst[::-1]
    if how == "rot":
        k = len(lst) // 2
        return lst[k:] + lst[:k]
    if how == "zip":
        return lst[1::2] + lst[0::2]
    if how == "dup":
        return lst + lst[:1]
    if how == "neg" and T:
        return [i - T for i in lst]       # positions counted from the end, as numpy indexing reads them
    return lst


def merge_split(sop):
    """A SplitOptimProblem written as the one problem it stands for (intervals side by side, block-diagonal rows): what
    F1-F7 are evaluated on when the desk builds its problems interval by interval."""
    import scipy.sparse as sp
    import eaopack as eao
    ops = sop.ops
    blocks = [o.A if o.A is not None else sp.csr_matrix((0, len(o.c))) for o in ops]
    A = sp.block_diag(blocks, format="csr") if blocks else None
    b = np.hstack([np.asarray(o.b, float) if o.b is not None else np.zeros(0) for o in ops])
    cT = "".join((o.cType or "") for o in ops)
    mnr = None
    if all(o.map_nodal_restr is not None for o in ops):
        mnr = [r for o in ops for r in o.map_nodal_restr]
    return eao.optimization.OptimProblem(c=np.hstack([o.c for o in ops]), l=np.hstack([o.l for o in ops]), u=np.hstack([o.u for o in ops]),
                                         A=A, b=b, cType=cT, mapping=sop.mapping, map_nodal_restr=mnr)


class Desk:
    def setup(self, P, pr, g, positional=False, **kw):
        """(problem F1-F7 are evaluated on, object the desk optimises)"""
        sp_ = self.plan.get("split")
        if sp_:
            if positional:
                # (prices, timegrid, interval_size, skip_nodes, fix_time_window) - the documented order
                sop = P.setup_split_optim_problem(pr, g, sp_["interval_size"], kw.get("skip_nodes", []), kw.get("fix_time_window"))
            else:
                sop = P.setup_split_optim_problem(pr, g, interval_size=sp_["interval_size"], **kw)
            self.probes["split_desk"] += 1
            return merge_split(sop), sop
        if positional:
            # (prices, timegrid, costs_only, skip_nodes, fix_time_window)
            op = P.setup_optim_problem(pr, g, False, kw.get("skip_nodes", []), kw.get("fix_time_window"))
        else:
            op = P.setup_optim_problem(pr, g, **kw)
        return op, op

    def __init__(self, plan):
        self.plan = plan
        self.w = plan["world"]
        self.B = specs.Builder(self.w)
        self.events = []
        self.faults = {}
        self.probes = {k: 0 for k in REQUIRED_PROBES}
        self.stats = {"ticks": 0, "setups": 0, "solves": 0, "accepted": 0, "inconclusive": 0, "f5_checked": 0,
                      "f4_checked": 0, "vars_fixed": 0, "vars_free_checked": 0, "grid_steps_rolled": 0,
                      "liveness_checked": 0, "twin_failed": 0}
        self.pairs = set()
        self.violation = None
        self.x_prev = None          # solution the desk holds
        self.x_is_opt_for = None    # (curve id) if x_prev is an accepted optimum under that curve
        self.v_prev = None
        self.fix_dict = {}          # reused dict object (variant)
        self.fixed_prev = None      # variables that were fixed in the solve that produced x_prev
        self.layout_prev = None     # what the positions of x_prev stand for
        self.grid_set = False
        self.last_solve = None
        self.x_raw = None

    def fault(self, k):
        self.faults[k] = self.faults.get(k, 0) + 1

    def viol(self, clause, tick, detail, field=""):
        if self.violation is None:
            self.violation = {"clause": clause, "tick": tick, "detail": detail, "field": field,
                              "signature": "%s|%s|%s" % (ID, clause, field)}

    def solve(self, op, fault=None, soft=False):
        kw = {}
        if soft:
            kw["make_soft_problem"] = True
        if self.plan["solver"]:
            kw["solver"] = self.plan["solver"]
        with seams.SimSolver([fault] if fault else []) as ss:
            try:
                res = op.optimize(**kw)
            except Exception as e:
                res = "raised:" + type(e).__name__
        for k, v in ss.fired.items():
            self.fault("solver_" + k.split(":")[0])
        self.stats["solves"] += 1
        return res

    def initial(self):
        P = self.B.portfolio(self.plan["portfolio"])
        g = self.B.grid(self.plan["grid"])
        pr = self.B.prices(self.plan["curves"][0])
        try:
            op, sop = self.setup(P, pr, g)
        except Exception as e:
            self.events.append(("init", "setup-raise:%s@%s" % canon.exc_sig(e)))
            return False
        self.stats["setups"] += 1
        res = self.solve(sop)
        if isinstance(res, str):
            self.events.append(("init", "solve:" + res))
            return False
        self.accept(res, op, 0, op_obj=sop)
        self.events.append(("init", canon.digest_canon({"v": float(res.value)}, nd=5)))
        return True

    @staticmethod
    def layout(op):
        """what each variable index stands for: sorted (asset, node, var_name, type, time_step) of its mapping rows"""
        m = op.mapping
        cols = [c_ for c_ in ("asset", "node", "var_name", "type", "time_step") if c_ in m.columns]
        d = {}
        for i_, row in zip(m.index.to_numpy(), m[cols].astype(str).to_numpy()):
            d.setdefault(int(i_), []).append("|".join(row))
        return {k_: tuple(sorted(v_)) for k_, v_ in d.items()}

    def accept(self, res, op, curve, fixed=None, op_obj=None):
        self.fixed_prev = fixed
        self.layout_prev = self.layout(op)
        x = np.array(res.x, dtype=float)
        for i in bool_vars(op):
            if abs(x[i] - round(x[i])) < 1e-6:
                x[i] = round(x[i])
        self.x_prev = x
        self.x_raw = np.array(res.x, dtype=float)     # the oracle's own copy of the solution as it was returned
        self.last_solve = (op_obj if op_obj is not None else op, res, curve)   # what the desk keeps: problem, result object, curve
        self.v_prev = float(res.value)
        self.x_is_opt_for = curve
        self.stats["accepted"] += 1

    def between(self, what, P, g, k):
        """History-making calls on the live portfolio between two ticks (they must not matter; their own outcome is not judged)."""
        import eaopack as eao
        self.fault("between_" + what)
        try:
            if what == "to_json":
                eao.serialization.to_json(P)
            elif what == "to_json_assets":
                for a in P.assets:
                    eao.serialization.to_json(a)
            elif what == "params_tree":
                eao.io.get_params_tree(P)
            elif what == "setup_plain":
                P.setup_optim_problem(self.B.prices(self.plan["curves"][(k + 1) % len(self.plan["curves"])]), g)
                self.grid_set = True
            elif what == "set_timegrid":
                P.set_timegrid(g)
                self.grid_set = True
            elif what == "cost_samples":
                P.create_cost_samples([self.B.prices(self.plan["curves"][(k + 1) % len(self.plan["curves"])])], g)
                self.grid_set = True
        except Exception as e:
            self.events.append((k, "between-raise:%s@%s" % canon.exc_sig(e)))

    def tick(self, k, tk):
        import eaopack as eao
        plan = self.plan
        self.stats["ticks"] += 1
        if tk.get("restart"):
            # crash + restart: every Python object is gone; the spec and the JSON text of x survive
            xs = json.dumps([float(v) for v in self.x_prev])
            self.B = specs.Builder(self.w)
            self.x_prev = np.array(json.loads(xs), dtype=float)
            self.fix_dict = {}
            self.grid_set = False
            self.last_solve = None
            self.fault("restart")
        if tk["feed"] in ("drop", "dup", "stale"):
            self.fault("feed_" + tk["feed"])
        P = self.B.portfolio(plan["portfolio"])
        g = self.B.grid(plan["grid"])
        pr = self.B.prices(plan["curves"][tk["curve"]])
        T = g.T
        if tk.get("between"):
            self.between(tk["between"], P, g, k)
        now = min(tk["now"], T if (tk["form"] != "date" or tk.get("date_pos")) else T - 1)
        self.stats["grid_steps_rolled"] += now
        # --- the solution the desk fixes to
        x_fix = self.x_prev.copy()
        x_kind = tk.get("x_source", "solution")
        x_oracle = None
        if tk.get("report_first") and x_kind == "solution" and self.last_solve is not None:
            # the desk draws up the report for the solve it holds and only then reads x from the result object; the oracle
            # compares with its own copy taken when the result was returned
            sop_, res_, cv_ = self.last_solve
            try:
                eao.io.extract_output(P, sop_, res_, self.B.prices(plan["curves"][cv_]))
            except Exception as e:
                self.events.append((k, "report-raise:%s@%s" % canon.exc_sig(e)))
            self.fault("report_before_reading_x")
            x_fix = np.array(res_.x, dtype=float)
            x_oracle = self.x_raw.copy()
            x_kind = "reported"
        # --- window
        if tk["form"] == "date":
            I = specs.mat(tk["date"])
            if tk.get("date_tz"):
                I = pd.Timestamp(I).tz_convert(tk["date_tz"])
                if tk["date"]["$t"] == "datetime":
                    I = I.to_pydatetime()
            if g.timepoints.tz is not None:
                self.probes["date_form_aware_grid"] += 1
        lo = min(tk.get("lo", 0), max(now - 1, 0)) if tk["form"] != "date" else 0
        W = set(range(lo, now))
        if tk.get("steps") and tk["form"] != "date":
            W = {int(i) for i in tk["steps"] if 0 <= int(i) < T} or W
        if (tk.get("empty") or tk.get("no_window")) and tk["form"] != "date":
            W = set()
        if tk["form"] == "mask":
            I = np.array([i in W for i in range(T)], dtype=bool)
        elif tk["form"] == "list":
            I = [bool(i in W) for i in range(T)]
        elif tk["form"] == "npboollist":
            I = list(np.array([i in W for i in range(T)], dtype=bool))   # list(mask): numpy.bool_ scalars, not Python bools
        elif tk["form"] == "intidx":
            I = np.array(_ordered(W, tk.get("idx_order"), T), dtype=int)       # "indices on timegrid" (docstring of fix_time_window)
        elif tk["form"] == "intlist":
            I = [int(i) for i in _ordered(W, tk.get("idx_order"), T)]
            if not I and k % 2:
                I = np.array([], dtype=int)      # (even ticks hand over the plain empty list: "nothing realised yet")
        # --- twin: window-less set-up on fresh objects
        tw = specs.Builder(self.w)
        try:
            skw = {"skip_nodes": list(tk["skip_nodes"])} if tk.get("skip_nodes") else {}
            op_free, _ = self.setup(tw.portfolio(plan["portfolio"]), tw.prices(plan["curves"][tk["curve"]]), tw.grid(plan["grid"]), **skw)
        except Exception as e:
            self.stats["twin_failed"] += 1
            self.events.append((k, "twin-raise:%s@%s" % canon.exc_sig(e)))
            return
        n = len(op_free.c)
        if x_kind == "arbitrary":
            # any vector within the bounds is a legal 'previous solution' for F1-F3
            lo, hi = np.asarray(op_free.l, float), np.asarray(op_free.u, float)
            frac = np.array([((i * 7919 + k * 104729) % 1000) / 1000.0 for i in range(n)])
            x_fix = lo + (hi - lo) * frac
            if k % 2 == 0:
                for i in bool_vars(op_free):
                    x_fix[i] = float(round(x_fix[i]))
            # (odd ticks keep fractional values on booleans: the solution of a relaxed run is a previous solution too)
        elif x_kind == "off_bounds":
            # a previous solution need not respect the *new* bounds (capacities may come from the price table):
            # the window must still be pinned to it, value for value
            lo_b, hi_b = np.asarray(op_free.l, float), np.asarray(op_free.u, float)
            x_fix = x_fix[:n].copy() if len(x_fix) >= n else np.zeros(n)
            for i in range(0, n, 3):
                x_fix[i] = hi_b[i] + 0.75 + (i % 5) if (i // 3) % 2 == 0 else lo_b[i] - 1.25 - (i % 4)
        elif x_kind == "longer":
            x_fix = np.hstack([x_fix, np.zeros(3 + k)])
            self.probes["x_from_slp"] += 0
        elif x_kind == "slp":
            try:
                t_future = g.timepoints[max(1, min(T - 1, now))]
                ops = P.setup_optim_problem(pr, g)
                slp = eao.stoch_lin_prog.make_slp(copy.deepcopy(ops), P, g, t_future, [self.B.prices(plan["curves"][0])])
                rs = self.solve(slp)
                if isinstance(rs, str):
                    x_kind = "solution"
                else:
                    x_fix = np.array(rs.x, dtype=float)
                    self.probes["x_from_slp"] += 1
                    if tk.get("report_first"):
                        x_oracle = x_fix.copy()
                        try:
                            eao.io.extract_output(P, slp, rs, pr)
                        except Exception as e:
                            self.events.append((k, "report-raise:%s@%s" % canon.exc_sig(e)))
                        self.fault("report_before_reading_x")
                        x_fix = np.array(rs.x, dtype=float)     # read from the result object after the report
            except Exception:
                x_kind = "solution"
        if len(x_fix) < n:
            self.events.append((k, "x shorter than problem"))
            return
        if tk.get("x_dtype"):
            # any vector is a legal previous solution, also a schedule kept as whole numbers or in single precision
            x_fix = np.rint(x_fix).astype(np.int64) if tk["x_dtype"] == "int" else np.asarray(x_fix, dtype=np.float32)
            x_kind = "recast"
            self.fault("x_" + tk["x_dtype"])
        # --- system: set-up with the window
        if tk.get("reuse_dict"):
            self.fix_dict["I"] = I
            self.fix_dict["x"] = x_fix
            fx = self.fix_dict
            self.fault("dict_reuse")
        else:
            fx = {"I": I, "x": x_fix}
        x_ref = np.asarray(x_fix, dtype=float).copy()
        if x_oracle is not None and not tk.get("x_dtype") and len(x_oracle) == len(x_ref):
            x_ref = x_oracle      # "its previous value" is the value the solution had when it was returned
        if tk.get("no_window") and tk["form"] != "date":
            fx = None
            self.fault("rebuild_without_window")
        if tk.get("refused_first"):
            # the same set-up with price arrays one step short: refused by every asset that reads a price (ValueError); what the
            # refused call left behind must not show in the set-up that follows
            self.fault("refused_window_setup")
            try:
                bad = {k_: (v_[:-1] if hasattr(v_, "__len__") and len(v_) == T else v_) for k_, v_ in pr.items()} if isinstance(pr, dict) else pr
                Ib = np.array([i < max(1, T // 2) for i in range(T)], dtype=bool)
                P.setup_optim_problem(bad, g, fix_time_window={"I": Ib, "x": np.asarray(x_fix, dtype=float).copy()})
                self.events.append((k, "refused-setup-accepted"))
            except Exception as e:
                self.events.append((k, "refused:%s" % type(e).__name__))
            self.grid_set = True
        garg = g
        if tk["grid_arg"] == "none":
            if not self.grid_set:
                P.set_timegrid(g)
                self.grid_set = True
            garg = None
            if tk["form"] == "date":
                self.probes["none_grid_date_form"] += 1
        try:
            op, sop = self.setup(P, pr, garg, positional=bool(tk.get("positional")), fix_time_window=fx, **skw)
            if tk.get("positional"):
                self.fault("positional_call")
        except Exception as e:
            et, fr = canon.exc_sig(e)
            self.events.append((k, "setup-raise:%s@%s" % (et, fr)))
            self.viol("F6-setup-with-window-raises", k, "set-up with fix_time_window raises %s (%s) in %s; the window-less set-up works"
                      % (et, str(e)[:200], fr), field="%s@%s" % (et, fr))
            return
        self.stats["setups"] += 2
        self.grid_set = True
        # --- F3: everything but the bounds equals the twin
        cs, ct = canon.canon_op(op), canon.canon_op(op_free)
        for fld in ("c", "b"):
            d = canon._cmp_arr(cs[fld], ct[fld], fld)
            if d:
                self.viol("F3-not-bounds-only", k, d, field=fld)
                return
        if cs["cType"] != ct["cType"]:
            self.viol("F3-not-bounds-only", k, "cType differs", field="cType")
            return
        cs2, ct2 = dict(cs), dict(ct)
        cs2["l"] = cs2["u"] = ct2["l"] = ct2["u"] = None
        d = canon.diff_canon(cs2, ct2)
        if d:
            self.viol("F3-not-bounds-only", k, d, field=canon_field(d))
            return
        if len(op.l) != n or len(op.u) != n:
            self.viol("F3-not-bounds-only", k, "number of variables changed", field="n")
            return
        # --- F7: the held solution is addressed by position; the positions must still mean the same variables
        if x_kind in ("solution", "longer") and getattr(self, "layout_prev", None) is not None:
            lay = self.layout(op_free)
            if lay != self.layout_prev:
                diff_ = [k_ for k_ in sorted(set(lay) | set(self.layout_prev)) if lay.get(k_) != self.layout_prev.get(k_)]
                self.viol("F7-previous-solution-misaligned", k,
                          "the variables of the rebuilt problem are not those of the problem the held solution came from (same portfolio and grid, "
                          "other prices): %d vs %d variables, first difference at index %s: %s vs %s" % (
                              len(lay), len(self.layout_prev), diff_[:1], lay.get(diff_[0]) if diff_ else None,
                              self.layout_prev.get(diff_[0]) if diff_ else None), field="layout")
                return
        # --- F1 / F2
        m = op_free.mapping
        in_w = m["time_step"].isin(list(W)).values
        idx = np.asarray(m.index.values, dtype=int)
        fixed = np.zeros(n, dtype=bool)
        fixed[idx[in_w]] = True
        l, u = np.asarray(op.l, float), np.asarray(op.u, float)
        lf, uf = np.asarray(op_free.l, float), np.asarray(op_free.u, float)
        # pinned means l == u == previous value; a deviation far below any solver tolerance (1e-9 relative) is not
        # held against the code (e.g. clipping a previous value that overshot its bound by rounding noise)
        ptol = 1e-9 * (1 + np.abs(x_ref[:n]))
        bad = np.where(fixed & ~((np.abs(l - x_ref[:n]) <= ptol) & (np.abs(u - x_ref[:n]) <= ptol)))[0]
        if len(bad):
            i = int(bad[0])
            self.viol("F1-window-variable-not-pinned", k,
                      "variable %d (%s) has a mapping row in the window but l=%r u=%r, previous value %r (%d such variables)"
                      % (i, describe_var(m, i), l[i], u[i], x_ref[i], len(bad)), field=var_kind(self.w, m, i))
            return
        bad = np.where(~fixed & ~(np.isclose(l, lf, rtol=0, atol=1e-12) & np.isclose(u, uf, rtol=0, atol=1e-12)))[0]
        if len(bad):
            i = int(bad[0])
            self.viol("F2-free-variable-changed", k,
                      "variable %d (%s) has no mapping row in the window but its bounds changed: [%r,%r] vs [%r,%r] (%d such variables)"
                      % (i, describe_var(m, i), l[i], u[i], lf[i], uf[i], len(bad)), field=var_kind(self.w, m, i))
            return
        if tk.get("slp_extend") and fixed.any() and not plan.get("split"):
            # the documented use of the feature ("looping through present / future in SLP"): the fixed problem is extended to a
            # two-stage SLP.  Every variable of the SLP that stands for a pinned variable (same asset, node, name, step - the
            # per-sample copies of future variables included) must be pinned to the same value.
            try:
                t_future = g.timepoints[max(1, min(T - 1, (min(W) + max(W) + 1) // 2 if W else 1))]
                slp = eao.stoch_lin_prog.make_slp(copy.deepcopy(op), P, g, t_future, [self.B.prices(plan["curves"][0])])
                self.fault("slp_extension_of_fixed_problem")
            except Exception as e:
                slp = None
                self.events.append((k, "slp-raise:%s@%s" % canon.exc_sig(e)))
            if slp is not None:
                # layout of the extension (docstring and code of make_slp): the n variables of the problem, then per sample the
                # future variables in their order
                m1 = op_free.mapping[~op_free.mapping.index.duplicated(keep="first")].sort_index()
                fut_steps = [int(i_) for i_, tp_ in zip(g.I, g.timepoints) if tp_ >= pd.Timestamp(t_future)]
                If_idx = np.asarray(m1.index[m1["time_step"].isin(fut_steps).values], dtype=int)
                ls_, us_ = np.asarray(slp.l, float), np.asarray(slp.u, float)
                n_f = len(If_idx)
                if n_f and (len(ls_) - n) % n_f == 0:
                    src = np.concatenate([np.arange(n)] + [If_idx] * ((len(ls_) - n) // n_f))
                    for j_, i_ in enumerate(src):
                        if fixed[i_]:
                            v_ = float(x_ref[i_])
                            tol_ = 1e-9 * (1 + abs(v_))
                            if abs(ls_[j_] - v_) > tol_ or abs(us_[j_] - v_) > tol_:
                                self.viol("F1-window-variable-not-pinned", k,
                                          "SLP extension (make_slp) of the fixed problem: variable %d stands for the pinned variable %d (%s) but has "
                                          "l=%r u=%r, previous value %r" % (j_, i_, describe_var(m, int(i_)), ls_[j_], us_[j_], v_), field="slp-copy")
                                return
                self.stats["slp_extensions_checked"] = self.stats.get("slp_extensions_checked", 0) + 1
        self.stats["vars_fixed"] += int(fixed.sum())
        self.stats["vars_free_checked"] += int((~fixed).sum())
        self.reach(m, fixed, W, tk, x_kind)
        # --- solve
        sol_fault = tk.get("solver_fault")
        soft = bool(tk.get("soft_solve"))
        res = self.solve(sop, sol_fault, soft=soft)
        if soft:
            self.fault("soft_solve")
        clean = sol_fault is None
        same_curve = (self.x_is_opt_for == tk["curve"]) and x_kind in ("solution", "longer") and not tk.get("skip_nodes")
        x_feasible_by_construction = x_kind in ("solution", "longer", "slp")
        if isinstance(res, str):
            self.events.append((k, "solve:" + res))
            if clean and x_feasible_by_construction and res == "not successful":
                # EAO's part: the held solution must be a feasible point of the problem it built (numpy check).
                # If it is, a peer that calls this problem infeasible is wrong by its own tolerances (counted).
                mv = refsolve.max_violation(op, x_ref[:n], bool_vars(op))
                mv_free = refsolve.max_violation(op_free, x_ref[:n], bool_vars(op_free))
                if mv_free > 1e-6:
                    # the new curve changed capacities taken from the price table: the held solution is simply outdated
                    self.stats["held_solution_outdated"] = self.stats.get("held_solution_outdated", 0) + 1
                elif mv > 1e-6:
                    self.viol("F5-held-solution-infeasible-in-fixed-problem", k,
                              "re-solve with the window fixed to the held solution reports '%s', and the held solution violates the "
                              "fixed problem by %.3g (scaled)" % (res, mv), field="liveness")
                else:
                    self.stats["peer_false_infeasible"] = self.stats.get("peer_false_infeasible", 0) + 1
                    self.stats["inconclusive"] += 1
            elif clean and res.startswith("raised"):
                self.stats["inconclusive"] += 1
            return
        if not clean and sol_fault != "budget" and not (sol_fault or "").startswith("status:optimal"):
            # a Results although the peer did not answer 'optimal' is C03's subject; the desk does not accept it
            self.events.append((k, "result-despite-fault"))
            return
        x = np.asarray(res.x, dtype=float)
        self.stats["f4_checked"] += 1
        dev = np.abs(x[fixed] - x_ref[:n][fixed])
        # the peer honours l == u only to its own tolerance, which is relative to the scale of the whole problem
        # (simplex / branch-and-bound back-ends: 1e-6; the interior-point default CLARABEL ends around 1e-5 on l == u)
        loose = 20.0 if (plan["solver"] or "CLARABEL").upper() in ("CLARABEL", "SCS", "OSQP") and not plan["cfg"].get("mip") else 1.0
        if plan["cfg"].get("mip"):
            # branch and bound back-ends check their tolerance (1e-6) on the presolved, scaled problem: on the original
            # bounds a few 1e-6 are seen (soak seed 713: 3.5e-6 on a variable pinned to 0 under a scaled asset).  Whether the
            # bounds themselves are right is F1's business, which is exact.
            loose = 10.0
        tol = loose * (X_TOL * (1 + np.abs(x_ref[:n][fixed])) + 1e-7 * (1 + float(np.abs(x).max(initial=0))))
        if dev.size and (dev > tol).any():
            j = int(np.where(fixed)[0][int(np.argmax(dev - tol))])
            self.viol("F4-window-variable-moved", k, "variable %d (%s): new value %r, previous %r" % (j, describe_var(m, j), x[j], x_ref[j]),
                      field=var_kind(self.w, m, j))
            return
        if soft:
            # (the relaxation's value and point are not what the desk holds on to; F4 was the claim)
            self.events.append((k, "soft:" + canon.digest_canon({"v": float(res.value)}, nd=4)))
            return
        # F5 is sound only if nothing that was pinned when the held optimum was computed is released now
        # (otherwise the new problem is a relaxation and its value may legitimately be better)
        superset = self.fixed_prev is None or (len(self.fixed_prev) == n and not (self.fixed_prev & ~fixed).any())
        if same_curve and self.v_prev is not None and superset:
            self.stats["f5_checked"] += 1
            tolv = VALUE_TOL * (1 + abs(self.v_prev)) * 10
            if abs(res.value - self.v_prev) > tolv:
                # Who is responsible?  EAO's part of F5 is that the held optimum is still a feasible point of the
                # fixed problem and still worth v_prev there (numpy check).  If it is, a different value can only
                # mean that the peer returned a sub-optimal 'optimal' now or before - a solver defect, counted,
                # not charged to EAO (HiGHS in scipy 1.14 does this on some small MIPs).
                xh = x_ref[:n]
                mv = refsolve.max_violation(op, xh, bool_vars(op))
                vh = float(-np.asarray(op.c, float) @ xh)
                vx = float(-np.asarray(op.c, float) @ x)
                if mv <= 1e-6 and abs(vh - self.v_prev) <= tolv and abs(vx - float(res.value)) <= tolv:
                    # (the excuse needs the reported value to be the value of the returned point: then that point is
                    # simply worse than the held one)
                    self.stats["peer_suboptimal"] = self.stats.get("peer_suboptimal", 0) + 1
                    self.events.append((k, "peer-suboptimal"))
                    if res.value < self.v_prev:
                        return  # keep the better solution the desk already holds
                else:
                    self.viol("F5-value-changed-with-unchanged-prices", k,
                              "value %r after fixing the window to the held optimum, %r before (same prices); in the fixed problem the held "
                              "optimum has violation %.3g and value %r" % (float(res.value), self.v_prev, mv, vh), field="value")
                    return
        self.stats["liveness_checked"] += 1
        if x_kind in ("solution", "longer", "slp") and not tk.get("skip_nodes"):
            # (a tick with skipped nodal restrictions solves a relaxation: the desk looks at it but keeps its solution)
            self.accept(res, op, tk["curve"], fixed.copy(), op_obj=sop)
        self.events.append((k, canon.digest_canon({"v": float(res.value), "nfix": int(fixed.sum())}, nd=5)))

    def reach(self, m, fixed, W, tk, x_kind):
        w = self.w
        name2cls = {s["kw"]["name"]: s["cls"] for s in w["assets"].values()}
        name2kw = {s["kw"]["name"]: s["kw"] for s in w["assets"].values()}
        idx = np.asarray(m.index.values, dtype=int)
        ts = m["time_step"].values
        inw = np.isin(ts, list(W))
        counts = np.bincount(idx, minlength=len(fixed))
        multi = counts > 1
        if (multi & fixed).any():
            self.probes["multi_row_var_fixed"] += 1
        # variables with rows inside and outside the window
        n_in = np.bincount(idx[inw], minlength=len(fixed))
        straddle = (n_in > 0) & (n_in < counts)
        assets = m["asset"].values
        feats = set()
        for i in np.where(straddle)[0][:50]:
            a = assets[np.where(idx == i)[0][0]]
            cls = name2cls.get(a)
            if cls == "OrderBook":
                self.probes["window_cuts_order"] += 1
                feats.add("cut_order")
                break
        for i in np.where(straddle)[0][:50]:
            a = assets[np.where(idx == i)[0][0]]
            if name2kw.get(a, {}).get("freq") is not None:
                self.probes["window_cuts_coarse_interval"] += 1
                feats.add("cut_coarse")
                break
        if "type" in m.columns and ((m["type"].values == "size") & inw).any():
            self.probes["scale_var_fixed"] += 1
            feats.add("scale")
        if "bool" in m.columns and (m["bool"].fillna(False).astype(bool).values & inw).any():
            self.probes["boolean_fixed"] += 1
            feats.add("bool")
        for a in set(assets[inw]):
            if name2cls.get(a) in ("Transport", "ExtendedTransport"):
                self.probes["transport_var_fixed"] += 1
                feats.add("transport")
                break
        if (multi & fixed).any():
            feats.add("multirow")
        cls_sig = ",".join(sorted({name2cls.get(a, "?") for a in set(assets)}))
        state = "%s|%s|%s|%s|%s|%s|%s" % (tk["form"] + ("/empty" if tk.get("empty") else "/gaps" if tk.get("steps") else "/mid" if tk.get("lo") else "") + ("/skip" if tk.get("skip_nodes") else "") + ("/ongrid" if tk.get("date_on_grid") else "") + ("/split" if self.plan.get("split") else "") + ("/soft" if tk.get("soft_solve") else "") + ("/after:" + tk["between"] if tk.get("between") else "") + ("/" + tk["date_tz"] if tk.get("date_tz") else ""), tk["grid_arg"], tk["feed"], x_kind, tk.get("solver_fault", "-"),
                                         "restart" if tk.get("restart") else "-", ",".join(sorted(feats)) or "plain")
        trivial = (not feats) and tk["feed"] == "new" and x_kind == "solution" and not tk.get("solver_fault") and not tk.get("restart")
        self.pairs.add(("T|" if trivial else "N|") + state + "|" + cls_sig)

    def run(self):
        with core.quiet():
            if self.initial():
                for k, tk in enumerate(self.plan["ticks"]):
                    self.tick(k, tk)
                    if self.violation is not None:
                        break
        dg = canon.digest_canon([list(e) for e in self.events])
        return {"violation": self.violation, "digest": dg, "stats": self.stats, "faults": self.faults,
                "probes": self.probes, "pairs": sorted(self.pairs), "n_ticks": len(self.plan["ticks"])}


def canon_field(d):
    for sep in ("[", " ", ":"):
        if sep in d:
            d = d.split(sep, 1)[0]
    return d


def describe_var(m, i):
    rows = m[m.index == i]
    if len(rows) == 0:
        return "no mapping row"
    r = rows.iloc[0]
    return "asset %s, node %s, %s, %d row(s), steps %s" % (r.get("asset"), r.get("node"), r.get("var_name"), len(rows),
                                                       sorted(set(int(t) for t in rows["time_step"]))[:6])


def var_kind(w, m, i):
    rows = m[m.index == i]
    if len(rows) == 0:
        return "unmapped"
    name2cls = {s["kw"]["name"]: s["cls"] for s in w["assets"].values()}
    return "%s/%s" % (name2cls.get(rows.iloc[0].get("asset"), "?"), "multi" if len(rows) > 1 else "single")


def execute(plan):
    return Desk(plan).run()


def simplify_candidates(plan):
    w = plan["world"]
    P = plan["portfolio"]
    assets = w["portfolios"][P]["assets"]
    if len(assets) > 1:
        for a in assets:
            c = copy.deepcopy(plan)
            c["world"]["portfolios"][P]["assets"] = [x for x in assets if x != a]
            yield c
    for i, tk in enumerate(plan["ticks"]):
        for k in ("solver_fault", "restart", "x_source", "reuse_dict", "lo", "steps", "skip_nodes", "empty", "soft_solve", "x_dtype", "between", "positional", "report_first", "refused_first", "no_window", "slp_extend"):
            if tk.get(k):
                c = copy.deepcopy(plan)
                c["ticks"][i].pop(k)
                yield c
        if tk["grid_arg"] == "none":
            c = copy.deepcopy(plan)
            c["ticks"][i]["grid_arg"] = "explicit"
            yield c
    keep = ("name", "nodes", "size", "cap_in", "cap_out", "portfolio", "base_asset", "orders", "asset1_variable",
            "asset2_variable", "min_cap", "max_cap")
    used = specs.referenced_ids(w, P)
    for aid in sorted(a for a in used if a[0] == "a"):
        for k in sorted(w["assets"][aid]["kw"]):
            if k in keep:
                continue
            c = copy.deepcopy(plan)
            del c["world"]["assets"][aid]["kw"][k]
            yield c


def aggregate(results):
    agg = {"stats": {}, "faults_fired": {}, "probes": {}}
    pairs, digs = set(), set()
    samples = []
    for r in results:
        if r.get("harness_error"):
            continue
        core.merge_counts(agg["stats"], r.get("stats"))
        core.merge_counts(agg["faults_fired"], r.get("faults"))
        core.merge_counts(agg["probes"], r.get("probes"))
        pairs.update(r.get("pairs", []))
        digs.add(r.get("digest"))
        if len(samples) < 3 and r.get("plan"):
            w = r["plan"]["world"]
            samples.append({"run_index": r["run_index"], "seed": r["seed"], "grid": w["grids"][r["plan"]["grid"]],
                            "assets": {a: s["cls"] for a, s in w["assets"].items()}, "solver": r["plan"]["solver"],
                            "ticks": r["plan"]["ticks"]})
    nt = sorted(p for p in pairs if p.startswith("N|"))
    agg["evaluations"] = len([r for r in results if not r.get("harness_error")])
    agg["distinct_nontrivial"] = len(nt)
    agg["distinct_pairs_total"] = len(pairs)
    agg["rule"] = ("one evaluation = one simulated desk run (portfolio + grid + 2-6 ticks; per tick a set-up with the window on the "
                   "long-lived objects, a window-less set-up on a fresh twin, one solve; in about one run of seven every problem is built "
                   "through setup_split_optim_problem and judged as the block-diagonal problem it stands for). distinct_nontrivial counts distinct tick "
                   "states (window form, grid argument, feed event, source of the fixed vector, solver fault, restart, structural "
                   "features hit by the window: multi-row variable / cut order / cut coarse interval / scale / boolean / transport, "
                   "asset-class set); a tick with a fresh curve, no fault, no restart and only single-row variables is trivial")
    st = agg["stats"]
    agg["simulated_time"] = "%d grid steps rolled over %d ticks" % (st.get("grid_steps_rolled", 0), st.get("ticks", 0))
    agg["inconclusive_share"] = round(st.get("inconclusive", 0) / max(1, st.get("ticks", 1)), 4)
    agg["distinct_event_log_digests"] = len(digs)
    agg["sample_nontrivial_states"] = nt[:12]
    agg["samples"] = samples or [{"states": nt[:5]}]
    return agg
