"""C10 - building a problem is a pure function of parameters, prices and grid.

Simulated world: 1-3 logical clients issue public API calls on *shared* EAO objects (grids,
assets, portfolios, parameter dicts, price tables) in a PRNG-chosen interleaving, some calls
failing half-way.  Oracle: the fresh twin - the same call on objects built from the pristine
specs an instant before.  See DESIGN.md section 3.1.
"""
import copy
import os
import json

import numpy as np
import pandas as pd

from sim import specs, canon, core, seams

ID = "C10"
DEFAULT_SEED = {"quick": 1010, "thorough": 2010}
TIERS = {"quick": {"runs": 1000, "budget_s": 110, "cap_s": 150},
         "thorough": {"runs": 12000, "budget_s": 1500, "cap_s": 180}}
STUBS = ["clients (1-3 scripted users, interleaved by the PRNG scheduler)",
         "SimSolver outage on history-making optimize() calls", "SimDisk (in-memory) behind eaopack.serialization.open"]
ASSUMPTIONS = [
    "a public API call is atomic (EAO is synchronous and single-threaded): interleaving granularity is one call",
    "the fresh twin (same call on objects rebuilt from the pristine spec) is what C10 promises; for timegrid=None the twin first receives a fresh copy of the grid the object was last given (directly or through its portfolio / wrapper)",
    "calls judged: Asset/Portfolio.setup_optim_problem, setup_split_optim_problem, create_cost_samples, Timegrid.prices_to_grid / values_to_grid, and the value of the io.optimize shortcut (1e-6 relative); all other calls only make history",
    "when system and twin both raise, the call is not judged further (only that both fail)",
    "after a failed call that named a grid different from the object's previous one, a later timegrid=None call on that object is not judged (which grid the user means is ambiguous)",
    "solvers are deterministic for identical input",
]
REQUIRED_PROBES = ["sample_list_reused", "none_grid_after_foreign_write", "dict_other_zone", "numeric_df_second_grid", "fix_dict_reuse",
                   "setup_after_failed_split", "inner_asset_after_structured", "serialise_after_chp_setup"]

JUDGED = ("a.setup", "P.setup", "P.split", "P.samples", "g.v2g", "g.p2g", "slp")
FRESH_PROCESS = True   # every run in a forked child of a parent that never executes EAO code (see control calls)

# --------------------------------------------------------------------------- world + plan generation


def grid_variant(env, g0, kind):
    rng = env.rng
    w = env.world
    s0 = w["grids"][g0]
    if kind in ("shift", "freq", "freq_same", "longer"):
        T0 = specs.grid_info(w, g0).T
        if kind == "shift":
            return specs.gen_grid(env, freq=s0["freq"], T=(T0 if T0 in specs.FREQ_T[s0["freq"]] else None), mtu=s0["mtu"])
        if kind in ("freq", "freq_same"):
            f = rng.choice([f for f in ["15min", "h", "4h", "d"] if f != s0["freq"]])
            same = [f_ for f_ in ["15min", "h", "4h", "d"] if f_ != s0["freq"] and T0 in specs.FREQ_T[f_]]
            if same and (kind == "freq_same" or rng.random() < 0.3):
                # the same number of steps with another step size (48 half hours yesterday, 48 hours today)
                return specs.gen_grid(env, freq=rng.choice(same), T=T0, mtu=s0["mtu"])
            return specs.gen_grid(env, freq=f, mtu=s0["mtu"])
        bigger = [t for t in specs.FREQ_T[s0["freq"]] if t > T0 and t <= 96]
        return specs.gen_grid(env, freq=s0["freq"], T=(bigger[0] if bigger else None), mtu=s0["mtu"], start_shift=False)
    if s0.get("date_zone"):
        return specs.gen_grid(env, freq=s0["freq"], mtu=s0["mtu"])
    s = copy.deepcopy(s0)
    if kind == "tz":
        tz = rng.choice([z for z in [None, "UTC", "CET", "US/Eastern"] if z != s0["tz"]])
        s["tz"] = tz
        for k in ("start", "end"):
            if s[k].get("tz") is not None:
                s[k]["tz"] = tz
            if s[k]["$t"] == "date" or True:
                pass
    elif kind == "mtu":
        s["mtu"] = rng.choice([m for m in ["h", "d", "min"] if m != s0["mtu"]])
    gid = env.new_id("g")
    w["grids"][gid] = s
    return gid


def all_asset_ids(world):
    return sorted(world["assets"].keys(), key=lambda a: int(a[1:]))


def top_portfolios(world):
    """Portfolios that are not the inner portfolio of a structured / linked asset."""
    inner = set()
    for a in world["assets"].values():
        p = a["kw"].get("portfolio")
        if isinstance(p, dict) and "$portf" in p:
            inner.add(p["$portf"])
    return [p for p in sorted(world["portfolios"], key=lambda x: int(x[1:])) if p not in inner]


def portfolio_is_mip(world, pid):
    return any(specs.is_mip_asset(world, a) for a in world["portfolios"][pid]["assets"])


def gen_world(rng, opts):
    env = specs.Env(rng, max_T=48)
    env.periodic_p = max(getattr(env, "periodic_p", 0), 0.3)    # periodic assets keep state-like helpers (period tables, merged variables)
    env.allow_date_only_zone = True
    env.special_floats = rng.random() < 0.15
    env.coarse_p = max(getattr(env, "coarse_p", 0), 0.35)
    env.ramp_p = max(getattr(env, "ramp_p", 0), 0.3)
    w = env.world
    g0 = specs.gen_grid(env)
    if rng.random() < 0.3:
        env.arr_T = specs.grid_info(w, g0).T      # some worlds give parameters as arrays with one value per step
    n_g = rng.choice([2, 2, 3])
    grids = [g0]
    for _ in range(n_g - 1):
        grids.append(grid_variant(env, g0, rng.choice(["shift", "shift", "freq", "freq_same", "tz", "tz", "mtu", "longer"])))
    f0 = w["grids"][g0]["freq"]
    T0 = specs.grid_info(w, g0).T
    P0 = specs.gen_portfolio(env, grid_freq=f0, mip_ok=True, n_assets=rng.randint(1, 4))
    # near-duplicates of assets (same window / frequency / parameter objects, other wacc or price ...)
    for _ in range(rng.choice([0, 1, 1, 2])):
        cl = specs.clone_asset(env, rng.choice(w["portfolios"][P0]["assets"]))
        if cl is not None:
            w["portfolios"][P0]["assets"].append(cl)
    tops = [P0]
    p0_assets = list(w["portfolios"][P0]["assets"])
    if rng.random() < 0.5 and len(p0_assets) >= 1:
        k = rng.randint(1, len(p0_assets))
        sub = sorted(rng.sample(p0_assets, k), key=lambda a: int(a[1:]))
        nodes = sorted({n for a in sub for n in specs.asset_nodes(w, a)})
        extra = []
        if rng.random() < 0.6:
            extra.append(specs.gen_market(env, rng.choice(nodes)))
        if rng.random() < 0.4:
            extra.append(specs.gen_simple_contract(env, rng.choice(nodes), f0))
        rest = [a for a in p0_assets if a not in sub]
        if rest and rng.random() < 0.5:
            sib = specs.same_name_sibling(env, rng.choice(rest))   # same name as an asset of P0, other numbers
            if sib is not None:
                extra.append(sib)
        pid = env.new_id("P")
        w["portfolios"][pid] = {"assets": sub + extra}
        tops.append(pid)
    if rng.random() < 0.4:
        # structured asset wrapping assets that also live in P0 (shared inner assets)
        cands = [a for a in p0_assets if w["assets"][a]["cls"] not in ("StructuredAsset", "LinkedAsset")]
        if cands:
            sub = sorted(rng.sample(cands, rng.randint(1, min(3, len(cands)))), key=lambda a: int(a[1:]))
            nodes = sorted({n for a in sub for n in specs.asset_nodes(w, a)})
            ext = sorted(rng.sample(nodes, rng.randint(1, min(2, len(nodes)))))
            sa, pin = specs.gen_structured(env, sub, ext)
            outer = [sa] + [specs.gen_market(env, n) for n in ext]
            pid = env.new_id("P")
            w["portfolios"][pid] = {"assets": outer}
            tops.append(pid)
    # price tables: per grid a main one (any form) and an alternative (plain dict)
    prices = {}
    for g in grids:
        prices[g] = [specs.gen_prices(env, g), specs.gen_prices(env, g, form="dict_nd")]
    faulty = []
    if rng.random() < 0.25:
        faulty.append(specs.gen_prices(env, g0, form="dict_nd", missing_key=True))
    if rng.random() < 0.15:
        pid = specs.gen_prices(env, g0, form="dict_nd")
        col = w["prices"][pid]["cols"][rng.choice(specs.PRICE_KEYS)]
        col[rng.randrange(len(col))] = float("nan")
        faulty.append(pid)
    # a table that is fine at first and broken late in the horizon: a split set-up fails in a LATER interval
    late = {}
    for g in grids:
        pid = specs.gen_prices(env, g, form="dict_nd")
        for k_ in specs.PRICE_KEYS:
            col = w["prices"][pid]["cols"][k_]
            col[-1] = float("nan")
        late[g] = pid
    if rng.random() < 0.1 and w["dicts"]:
        # overlapping intervals in a shared dict (EAO rejects them with ValueError)
        d = w["dicts"][rng.choice(sorted(w["dicts"]))]["d"]
        if isinstance(d.get("start"), list) and len(d["start"]) >= 2 and isinstance(d.get("end"), list):
            d["end"][0] = d["end"][-1]
    world = specs.clean_world(w)
    ctx = {"grids": grids, "prices": prices, "faulty": faulty, "late_nan": late, "tops": tops, "T0": T0, "f0": f0,
           "U0": specs.iso(env.U0), "U1": specs.iso(env.U1), "tz": env.tz, "param_tz": env.param_tz}
    return world, ctx


def _p(rng, ctx, g, alt=None):
    """price table id for grid g (5 %: a table made for another grid or a faulty one)."""
    if rng.random() < 0.06:
        if ctx["faulty"] and rng.random() < 0.6:
            return rng.choice(ctx["faulty"])
        og = rng.choice(ctx["grids"])
        return ctx["prices"][og][1]
    i = alt if alt is not None else (0 if rng.random() < 0.6 else 1)
    return ctx["prices"][g][i]


def _cast(rng, world, pid):
    form = world["prices"][pid]["form"]
    if form == "dict_nd":
        return rng.random() < 0.15
    return rng.random() < 0.75  # DataFrames are normally cast to the grid first


def _fix_spec(rng, world, ctx, g, fid):
    gi = specs.grid_info(world, g)
    T = gi.T
    k = rng.randint(1, max(1, T - 1))
    form = rng.choice(["mask", "list", "date"])
    if form == "date":
        # strictly between two grid points so that "before the date" has one reading
        tp = gi.timepoints[k - 1]
        step = (gi.timepoints[1] - gi.timepoints[0]) / 2
        t = tp + step
        # zone-aware grids get the instant as UTC (wall-clock strings are ambiguous in the DST fall-back hour)
        if t.tzinfo is not None:
            I = {"$t": "datetime", "v": specs.iso(t.tz_convert("UTC").tz_localize(None)), "tz": "UTC"}
        else:
            I = {"$t": "datetime", "v": specs.iso(t), "tz": None}
    elif form == "mask":
        I = {"$t": "nd_bool", "v": [i < k for i in range(T)]}
    else:
        I = [bool(i < k) for i in range(T)]
    return {"id": fid, "I": I}


def gen_scripts(rng, world, ctx):
    """Client scripts: each a list of steps (without client tag)."""
    grids, tops = ctx["grids"], ctx["tops"]
    assets = all_asset_ids(world)
    shared_dicts = sorted(world["dicts"])
    n_clients = rng.choice([1, 2, 2, 3])
    scripts = []
    fix_n = [0]

    def asset_user():
        a = rng.choice(assets)
        g = rng.choice(grids)
        st = []
        r = rng.random()
        p = _p(rng, ctx, g)
        if r < 0.35:
            base_ = world["assets"][a]["kw"].get("base_asset")
            if base_:
                # a scaled asset hands timegrid=None on to its base asset: the user gives the grid to both
                st.append({"op": "a.set_tg", "obj": base_["$asset"], "grid": g})
            st.append({"op": "a.set_tg", "obj": a, "grid": g})
            st.append({"op": "a.setup", "obj": a, "grid": None, "prices": p, "cast": _cast(rng, world, p), "costs_only": False})
        else:
            st.append({"op": "a.setup", "obj": a, "grid": g, "prices": p, "cast": _cast(rng, world, p),
                       "costs_only": rng.random() < 0.15})
        if rng.random() < 0.5:
            p2 = _p(rng, ctx, g, alt=1)
            st.append({"op": "a.setup", "obj": a, "grid": rng.choice([None, None, g]), "prices": p2,
                       "cast": _cast(rng, world, p2), "costs_only": rng.random() < 0.2})
        if rng.random() < 0.2:
            st.append({"op": "optimize", "obj": a, "solver": None})
        if rng.random() < 0.12:
            st.insert(0, _refused(a, "a.setup", g))
        return st

    def _refused(obj, op, g):
        """A call that EAO refuses (prices made for another grid / with a missing key / with a NaN) right before the valid calls on
        the same object: whatever the refused call left behind must not show in them."""
        others = [x for x in grids if x != g and specs.grid_info(world, x).T != specs.grid_info(world, g).T]
        if ctx["faulty"] and (not others or rng.random() < 0.5):
            bad = rng.choice(ctx["faulty"])
        elif others:
            bad = ctx["prices"][rng.choice(others)][1]
        else:
            bad = ctx["late_nan"][g]
        st_ = {"op": op, "obj": obj, "grid": g, "prices": bad, "cast": False}
        if op == "a.setup":
            st_["costs_only"] = False
        return st_

    def portf_user():
        P = rng.choice(tops)
        g = rng.choice(grids)
        p = _p(rng, ctx, g)
        st = []
        if rng.random() < 0.25:
            st.append({"op": "P.set_tg", "obj": P, "grid": g})
            st.append({"op": "P.setup", "obj": P, "grid": None, "prices": p, "cast": _cast(rng, world, p)})
        else:
            st.append({"op": "P.setup", "obj": P, "grid": g, "prices": p, "cast": _cast(rng, world, p)})
        if rng.random() < 0.15:
            names = sorted({world["nodes"][n]["name"] for a in world["portfolios"][P]["assets"]
                            for n in specs.asset_nodes(world, a)})
            st[-1]["skip_nodes"] = [rng.choice(names)]
        can_solve = (not portfolio_is_mip(world, P)) or specs.grid_info(world, g).T <= 24
        if can_solve and rng.random() < 0.6:
            st.append({"op": "optimize", "obj": P, "solver": rng.choice([None, None, "SCIPY"]),
                       "fault": ("raise" if rng.random() < 0.1 else None)})
            if rng.random() < 0.5:
                ex = {"op": rng.choice(["extract", "extract", "dcf"]), "obj": P}
                if rng.random() < 0.3:
                    # an asset of the portfolio is used on its own in between; the report is drawn up afterwards
                    a_ = rng.choice(world["portfolios"][P]["assets"])
                    g2_ = rng.choice(grids)
                    p2_ = _p(rng, ctx, g2_)
                    st.append({"op": "a.setup", "obj": a_, "grid": g2_, "prices": p2_, "cast": _cast(rng, world, p2_), "costs_only": False})
                    st.append(ex)
                    st.append({"op": "a.setup", "obj": a_, "grid": None, "prices": p2_, "cast": False, "costs_only": False})
                else:
                    st.append(ex)
            if rng.random() < 0.5:
                fid = "f%d" % fix_n[0]
                fix_n[0] += 1
                fx = _fix_spec(rng, world, ctx, g, fid)
                p2 = _p(rng, ctx, g, alt=1)
                st.append({"op": "P.setup", "obj": P, "grid": rng.choice([g, g, None]), "prices": p2,
                           "cast": _cast(rng, world, p2), "fix": fx})
                if rng.random() < 0.5:
                    # the same dict object again: on another grid or in a split set-up
                    g2 = rng.choice(grids)
                    p3 = _p(rng, ctx, g2)
                    if rng.random() < 0.5:
                        st.append({"op": "P.setup", "obj": P, "grid": g2, "prices": p3,
                                   "cast": _cast(rng, world, p3), "fix": {"id": fid}})
                    else:
                        st.append({"op": "P.split", "obj": P, "grid": g2, "prices": p3,
                                   "interval": rng.choice(["d", "12h", "8h"]), "fix": {"id": fid}})
                    if rng.random() < 0.5:
                        # ... and once more where it was first used
                        st.append({"op": "P.setup", "obj": P, "grid": g, "prices": p2, "cast": False, "fix": {"id": fid}})
        r = rng.random()
        if r < 0.35:
            p2 = _p(rng, ctx, g, alt=1)
            st.append({"op": "P.setup", "obj": P, "grid": rng.choice([None, g]), "prices": p2,
                       "cast": _cast(rng, world, p2), "costs_only": rng.random() < 0.3})
        elif r < 0.5:
            st.append({"op": "P.samples", "obj": P, "grid": rng.choice([None, g]),
                       "prices": [ctx["prices"][g][1], ctx["prices"][g][0]][:rng.choice([1, 2])]})
            if rng.random() < 0.6:
                # the user keeps ONE list of price samples and hands the same list object to later calls, also on other grids
                lid = "L%d" % fix_n[0]
                fix_n[0] += 1
                st[-1]["list_id"] = lid
                g2 = rng.choice(grids)
                st.append({"op": "P.samples", "obj": P, "grid": g2, "prices": st[-1]["prices"], "list_id": lid})
        elif r < 0.6 and can_solve:
            st.append({"op": "io.optimize", "obj": P, "grid": g, "prices": ctx["prices"][g][0],
                       "split": rng.choice([None, None, "d"])})
        if rng.random() < 0.12:
            st.insert(0, _refused(P, "P.setup", g))
        return st

    def split_user():
        P = rng.choice(tops)
        g = rng.choice(grids)
        p = _p(rng, ctx, g)
        st = []
        if rng.random() < 0.5:
            st.append({"op": "P.setup", "obj": P, "grid": g, "prices": p, "cast": _cast(rng, world, p)})
        failing = rng.random() < 0.3
        st.append({"op": "P.split", "obj": P, "grid": g, "prices": (ctx["late_nan"][g] if failing else p),
                   "interval": rng.choice(["d", "d", "12h", "8h", "2d"])})
        if rng.random() < (0.8 if failing else 0.6):
            p2 = _p(rng, ctx, g, alt=1)
            st.append({"op": "P.setup", "obj": P, "grid": None, "prices": p2, "cast": _cast(rng, world, p2)})
        if rng.random() < (0.7 if failing else 0.3):
            a = rng.choice(world["portfolios"][P]["assets"])
            st.append({"op": "a.setup", "obj": a, "grid": None, "prices": ctx["prices"][g][1], "cast": False,
                       "costs_only": False})
        if failing and rng.random() < 0.5:
            rng.shuffle(st[-2:]) if len(st) >= 3 else None
        return st

    def grid_user():
        g = rng.choice(grids)
        st = []
        for _ in range(rng.randint(1, 3)):
            r = rng.random()
            if r < 0.35 and shared_dicts:
                st.append({"op": "g.v2g", "grid": rng.choice(grids), "dict": rng.choice(shared_dicts)})
            elif r < 0.7:
                gg = rng.choice(grids)
                st.append({"op": "g.p2g", "grid": gg, "prices": _p(rng, ctx, rng.choice([gg, gg, g]))})
            elif r < 0.85:
                U0, U1 = pd.Timestamp(ctx["U0"]), pd.Timestamp(ctx["U1"])
                s = U0 + specs.H6 * rng.randint(0, 4)
                e = s + specs.H6 * rng.randint(1, 6)
                tz = world["grids"][g]["tz"]
                st.append({"op": "g.restrict", "grid": g, "start": rng.choice([None, specs.t_ts(s, tz)]),
                           "end": rng.choice([None, specs.t_ts(e, tz)])})
            else:
                st.append({"op": "g.wacc", "grid": g, "wacc": rng.choice([0.0, 0.07, 0.3])})
        return st

    def serial_user():
        X = rng.choice(tops + assets)
        st = []
        if rng.random() < 0.5 and X[0] == "a":
            g = rng.choice(grids)
            p = _p(rng, ctx, g)
            st.append({"op": "a.setup", "obj": X, "grid": g, "prices": p, "cast": _cast(rng, world, p), "costs_only": False})
        st.append({"op": rng.choice(["to_json", "roundtrip", "params", "to_json_file", "set_param"]), "obj": X,
                   "fault": ("eio" if rng.random() < 0.15 else None)})
        if X[0] == "P" and rng.random() < 0.3:
            st.append({"op": "graph", "obj": X})
        if rng.random() < 0.6:
            # does serialising leave the object as it was?  set it up again afterwards, with and without a grid
            g = rng.choice(grids)
            p = _p(rng, ctx, g)
            st.append({"op": ("P.setup" if X[0] == "P" else "a.setup"), "obj": X, "grid": rng.choice([None, None, g]),
                       "prices": p, "cast": False, "costs_only": False})
        return st

    def structured_user():
        sas = [a for a in assets if world["assets"][a]["cls"] in ("StructuredAsset", "LinkedAsset")]
        if not sas:
            return asset_user()
        sa = rng.choice(sas)
        g = rng.choice(grids)
        p = _p(rng, ctx, g)
        st = [{"op": "a.setup", "obj": sa, "grid": g, "prices": p, "cast": _cast(rng, world, p), "costs_only": False}]
        inner = world["portfolios"][world["assets"][sa]["kw"]["portfolio"]["$portf"]]["assets"]
        a = rng.choice(inner)
        g2 = rng.choice(grids)
        p2 = _p(rng, ctx, g2)
        st.append({"op": "a.setup", "obj": a, "grid": rng.choice([g2, g2, None]), "prices": p2,
                   "cast": _cast(rng, world, p2), "costs_only": False})
        return st

    def slp_user():
        P = rng.choice(tops)
        g = rng.choice(grids)
        if portfolio_is_mip(world, P):
            return portf_user()
        gi = specs.grid_info(world, g)
        k = rng.randint(1, max(1, gi.T - 1))
        t = gi.timepoints[k]
        sf = specs.t_ts(t.tz_convert("UTC").tz_localize(None), "UTC") if t.tzinfo is not None else specs.t_ts(t, None)
        p = ctx["prices"][g][1]
        st = [{"op": "P.setup", "obj": P, "grid": g, "prices": p, "cast": False},
              {"op": "slp", "obj": P, "grid": g, "start_future": sf,
               "prices": [ctx["prices"][g][1]] * rng.choice([1, 2])}]
        if len(grids) > 1 and rng.random() < 0.4:
            # the portfolio is used on another grid before the kept problem is extended
            g2 = rng.choice([x for x in grids if x != g])
            st.insert(1, {"op": "P.setup", "obj": P, "grid": g2, "prices": _p(rng, ctx, g2), "cast": False})
        if rng.random() < 0.7:
            st.append({"op": "P.setup", "obj": P, "grid": None, "prices": p, "cast": False})
        if rng.random() < 0.4:
            a = rng.choice(world["portfolios"][P]["assets"])
            st.append({"op": "a.setup", "obj": a, "grid": None, "prices": p, "cast": False, "costs_only": False})
        return st

    kinds = [asset_user, asset_user, portf_user, portf_user, portf_user, split_user, grid_user, serial_user,
             structured_user, slp_user]
    for _ in range(n_clients):
        sc = []
        for _ in range(rng.randint(1, 4)):
            sc.extend(rng.choice(kinds)())
        scripts.append(_param_updates(rng, world, _market_updates(rng, world, sc))[:16])
    return scripts


SET_ATTRS = ["extra_costs", "fix_costs", "costs_const", "cost_in", "cost_out", "cost_store", "efficiency", "time_back", "time_forward",
             "max_cap", "min_cap", "size", "cap_in", "cap_out", "start_level", "end_level", "price", "time_already_running"]


def _param_updates(rng, world, sc):
    """The user assigns a new value to a scalar parameter of an asset he already used and calls again: the
    parameters an object holds at the time of a call are that call's input."""
    out = []
    for st in sc:
        o = st.get("obj")
        if st["op"] not in ("a.setup", "P.setup", "P.split", "P.samples", "io.optimize") or not isinstance(o, str):
            out.append(st)
            continue
        r = rng.random()
        cand = [o] if o[0] == "a" else subtree_assets(world, o)
        if not cand or r >= 0.12:
            out.append(st)
            continue
        upd = {"op": "a.set_attr", "obj": rng.choice(cand), "attr": rng.choice(SET_ATTRS), "alt": [rng.choice(SET_ATTRS) for _ in range(4)]}
        if r < 0.06:
            out += [upd, st]
        else:
            out += [st, upd, json.loads(json.dumps(st))]
    return out


def _market_updates(rng, world, sc):
    """New quotes arrive: the user writes them into the price container already used (same object, new content)
    and calls again.  The content of a container at the time of a call is part of that call's input."""
    out = []
    for st in sc:
        pid = st.get("prices")
        pid = pid[0] if isinstance(pid, list) and pid else pid
        r = rng.random()
        p_after = 0.5 if st["op"] == "io.optimize" else 0.08
        if not isinstance(pid, str) or world["prices"][pid]["form"] not in ("dict_nd", "df_num", "df_dti"):
            out.append(st)
            continue
        keys = sorted(world["prices"][pid]["cols"])
        upd = {"op": "p.update", "prices": pid, "key": rng.choice(keys), "mul": rng.choice([0., 0.5, 1.5, -1.]),
               "add": rng.choice([0., 0., 3.]), "style": rng.choice(["assign", "inplace"])}
        p_before = 0.3 if (st.get("costs_only") or st["op"] == "P.samples") else 0.08
        if r < p_before:
            out += [upd, st]
        elif r < p_before + p_after:
            out += [st, upd, json.loads(json.dumps(st))]
        else:
            out.append(st)
    return out


def interleave(rng, scripts):
    """PRNG scheduler: picks whose next call runs; preserves per-client program order."""
    pos = [0] * len(scripts)
    out = []
    while True:
        live = [i for i in range(len(scripts)) if pos[i] < len(scripts[i])]
        if not live:
            break
        # bursts make both fine and coarse interleavings likely
        i = rng.choice(live)
        burst = rng.choice([1, 1, 2, 3])
        for _ in range(burst):
            if pos[i] < len(scripts[i]):
                st = dict(scripts[i][pos[i]])
                st["client"] = i
                out.append(st)
                pos[i] += 1
    return out[:40]


def gen_plan(rng, run_index, tier, opts):
    world, ctx = gen_world(rng, opts)
    scripts = gen_scripts(rng, world, ctx)
    plan = interleave(rng, scripts)
    return {"world": world, "plan": plan, "cfg": {"clients": len(scripts)}}


# --------------------------------------------------------------------------- model of documented grid propagation

AMBIG = "?"


def subtree_assets(world, oid, acc=None):
    """All asset ids that receive the grid when `oid` (asset or portfolio) is set up."""
    acc = [] if acc is None else acc
    if oid[0] == "P":
        for a in world["portfolios"][oid]["assets"]:
            subtree_assets(world, a, acc)
        return acc
    if oid in acc:
        return acc
    acc.append(oid)
    kw = world["assets"][oid]["kw"]
    if "base_asset" in kw:
        subtree_assets(world, kw["base_asset"]["$asset"], acc)
    if "portfolio" in kw and isinstance(kw["portfolio"], dict):
        subtree_assets(world, kw["portfolio"]["$portf"], acc)
    return acc


def inner_portfolios(world, oid, acc=None):
    acc = [] if acc is None else acc
    ids = world["portfolios"][oid]["assets"] if oid[0] == "P" else [oid]
    for a in ids:
        kw = world["assets"][a]["kw"]
        if "portfolio" in kw and isinstance(kw["portfolio"], dict):
            p = kw["portfolio"]["$portf"]
            acc.append(p)
            inner_portfolios(world, p, acc)
        if "base_asset" in kw:
            inner_portfolios(world, kw["base_asset"]["$asset"], acc)
    return acc


class Model:
    """What the harness knows from the plan and from success/failure of calls - never from EAO internals."""

    def __init__(self, world):
        self.w = world
        self.given = {}          # object id -> grid id | AMBIG
        self.owner = {}          # grid id -> asset id that last wrote grid.restricted (model of documented behaviour)
        self.grid_wacc = {}      # grid id -> wacc last written
        self.prev_setup_grid = {}  # object id -> grid id of last set-up
        self.dict_zone = {}      # shared dict id -> zone it was last normalised for ('naive' or tz)
        self.prices_grid = {}    # price table id -> grid id it was last cast on / used with
        self.last_failed = {}    # object id -> bool
        self.clipped = set()     # inner assets of a structured asset that has been set up
        self.failed_split = set()  # portfolios (and their assets) after a failed split set-up
        self.fix_used = {}       # fix id -> set of grid ids it was used on
        self.chp_setup = set()   # CHP-like assets that were set up at least once
        self.slp_grid = set()    # grids whose restricted was rewritten by make_slp

    def wacc_of(self, aid):
        return self.w["assets"][aid]["kw"].get("wacc", 0)

    def touch(self, oid, gid, ok, split=False, only_self=False):
        """A set-up (or set_timegrid) of oid with effective grid gid ran; ok = it returned.
        split: setup_split_optim_problem restores the full grid on the portfolio and its direct assets
        only - what wrapped assets / inner portfolios point to afterwards is not documented (AMBIG)."""
        sub = subtree_assets(self.w, oid)
        direct = ([oid] + list(self.w["portfolios"][oid]["assets"])) if oid[0] == "P" else [oid]
        objs = ([oid] if oid[0] == "P" else []) + sub + inner_portfolios(self.w, oid)
        if only_self:
            objs, sub = [oid], [oid]
        for o in objs:
            prev = self.given.get(o)
            if split and o not in direct:
                self.given[o] = AMBIG
            elif ok or prev == gid:
                self.given[o] = gid
            else:
                self.given[o] = AMBIG
        if sub:
            self.owner[gid] = sub[-1] if ok else AMBIG
            self.grid_wacc[gid] = self.wacc_of(sub[-1]) if ok else AMBIG
        for a in sub:
            cls = self.w["assets"][a]["cls"]
            if cls in ("CHPAsset", "Plant", "CHPAsset_with_min_load_costs") and ok:
                self.chp_setup.add(a)
            kw = self.w["assets"][a]["kw"]
            if "portfolio" in kw and isinstance(kw["portfolio"], dict):
                for ia in self.w["portfolios"][kw["portfolio"]["$portf"]]["assets"]:
                    self.clipped.add(ia)
        self.prev_setup_grid[oid] = gid
        self.last_failed[oid] = not ok

    def smear(self, oid):
        """A call ran on oid while the harness does not know which grid oid holds: whatever it holds has
        been handed to everything below it, so those objects are not known either."""
        sub = subtree_assets(self.w, oid)
        for o in ([oid] if oid[0] == "P" else []) + sub + inner_portfolios(self.w, oid):
            self.given[o] = AMBIG

    def shared_dicts_of(self, oid):
        return sorted(x for x in specs.referenced_ids(self.w, oid) if x[0] == "d")

    def zone(self, gid):
        return self.w["grids"][gid]["tz"] or "naive"


# --------------------------------------------------------------------------- executor


class Outcome:
    __slots__ = ("val", "exc")

    def __init__(self, val=None, exc=None):
        self.val, self.exc = val, exc


def _call(fn):
    try:
        return Outcome(val=fn())
    except core.HarnessError:
        raise
    except Exception as e:  # the system under test may raise anything
        return Outcome(exc=e)


def _field(diff):
    for sep in ("[", " ", ":"):
        if sep in diff:
            diff = diff.split(sep, 1)[0]
    return diff


class Exec:
    def __init__(self, plan):
        self.plan = plan
        self.w = plan["world"]
        self.B = specs.Builder(self.w)
        self.price_updates = {}   # price table id -> updates the user wrote into the container so far
        self.attr_updates = {}    # asset id -> (attribute, value) the user assigned to the live object so far
        self.M = Model(self.w)
        self.last = {}      # object id -> dict(op, res, grid, prices_obj)
        self.last_on_grid = {}   # (portfolio id, grid id) -> last plain problem built there (what a user keeps to extend it later)
        self.fixes = {}     # fix id -> dict(sys=<dict obj>, I=<tagged>, x=<array>)
        self.lists = {}     # list id -> the caller's list of price samples (kept and reused by the simulated user)
        self.lists_used = set()
        self.events = []
        self.stats = {"calls": 0, "judged": 0, "both_raise": 0, "both_raise_diff": 0, "twin_calls": 0,
                      "not_judged_ambiguous": 0, "noop_steps": 0}
        self.faults = {}
        self.probes = {k: 0 for k in REQUIRED_PROBES}
        self.pairs = set()
        self.violation = None
        self.disk = seams.SimDisk()
        self.known_hits = []

    # ---- helpers
    def fault(self, k):
        self.faults[k] = self.faults.get(k, 0) + 1

    def probe(self, k):
        self.probes[k] = self.probes.get(k, 0) + 1

    def needs_grid(self, oid):
        """Objects that must already hold a grid for a timegrid=None call on oid to be defined: the object
        itself and - for a scaled asset, which hands None on to its base asset - the base asset."""
        out = [oid]
        if oid[0] == "a":
            kw = self.w["assets"][oid]["kw"]
            if "base_asset" in kw:
                out = self.needs_grid(kw["base_asset"]["$asset"]) + out
        return out

    def eff_grid(self, st):
        """grid id the call works on: explicit, else the one the object was last given (AMBIG when the
        objects a None-call relies on do not all hold the same, unambiguous grid)."""
        if st.get("grid") is not None:
            return st["grid"]
        gs = {self.M.given.get(o) for o in self.needs_grid(st["obj"])}
        if len(gs) == 1:
            return gs.pop()
        return AMBIG

    def twin_precondition(self, B, oid, gid):
        """Documented precondition of timegrid=None on a fresh object: it was given the grid before."""
        for o in self.needs_grid(oid):
            B.obj(o).set_timegrid(B.grid(gid))

    def prices_for(self, B, st, gid_eff, pid=None):
        pid = pid if pid is not None else st["prices"]
        pr = B.prices(pid)
        if st.get("cast"):
            g = B.grid(gid_eff) if gid_eff not in (None, AMBIG) else None
            if g is None:
                return pr
            return g.prices_to_grid(pr)
        return pr

    def fix_for(self, st, twin, x_len=None):
        fx = st.get("fix")
        if fx is None:
            return None
        rec = self.fixes.get(fx["id"])
        if rec is None:
            return None
        if twin:
            return {"I": specs.mat(rec["I"]), "x": rec["x"].copy()}
        return rec["sys"]

    def abstract_state(self, st, gid):
        M = self.M
        o = st.get("obj")
        vec = []
        if o is not None and gid not in (None, AMBIG):
            sub = subtree_assets(self.w, o)
            own = M.owner.get(gid)
            vec.append("own" if (own is None or own in sub) else "foreign")
            pg = M.prev_setup_grid.get(o)
            if pg is None:
                vec.append("first")
            elif pg == gid:
                vec.append("same_grid")
            else:
                a, b = self.w["grids"][pg], self.w["grids"][gid]
                vec.append("other_" + ("tz" if a["tz"] != b["tz"] else "freq" if a["freq"] != b["freq"] else
                                       "mtu" if a["mtu"] != b["mtu"] else "horizon"))
            dz = [M.dict_zone.get(d) for d in M.shared_dicts_of(o)]
            z = M.zone(gid)
            vec.append("dict_" + ("none" if not dz else "fresh" if all(x is None for x in dz) else
                                  "same_zone" if all(x in (None, z) for x in dz) else "other_zone"))
            vec.append("failed_before" if M.last_failed.get(o) else "ok_before")
            vec.append("clipped" if o in M.clipped else "-")
            vec.append("after_failed_split" if o in M.failed_split else "-")
            if st.get("grid") is None:
                vec.append("nonegrid")
        pid = st.get("prices")
        if isinstance(pid, str):
            pg = M.prices_grid.get(pid)
            vec.append("p_" + ("fresh" if pg is None else "same" if pg == gid else "other"))
        if st.get("fix"):
            used = M.fix_used.get(st["fix"]["id"], set())
            vec.append("fix_" + ("fresh" if not used else "same" if used == {gid} else "other"))
        return tuple(vec)

    def record_pair(self, st, gid):
        vec = self.abstract_state(st, gid)
        trivial = all(v in ("own", "first", "dict_none", "dict_fresh", "ok_before", "-", "p_fresh", "fix_fresh") for v in vec)
        kind = st["op"] + ("/co" if st.get("costs_only") else "") + ("/cast" if st.get("cast") else "")
        self.pairs.add(("T|" if trivial else "N|") + kind + "|" + ",".join(vec))

    # ---- the calls (fn(B, twin) -> value)
    def do_setup(self, B, st, gid_eff, twin):
        o = B.obj(st["obj"])
        explicit = st.get("grid")
        g = B.grid(explicit) if explicit is not None else None
        if explicit is None and twin == "explicit":
            # second reference of a timegrid=None call: fresh objects with the stored grid handed in (building a problem is a
            # function of parameters, prices and grid - however the grid got there)
            g = B.grid(gid_eff)
        elif explicit is None and twin and gid_eff not in (None, AMBIG):
            self.twin_precondition(B, st["obj"], gid_eff)
        prices = self.prices_for(B, st, gid_eff)
        if st["op"] == "a.setup":
            return o.setup_optim_problem(prices, g, costs_only=bool(st.get("costs_only")))
        kw = {}
        if st.get("costs_only"):
            kw["costs_only"] = True
        if st.get("skip_nodes"):
            kw["skip_nodes"] = list(st["skip_nodes"])
        fx = self.fix_for(st, twin)
        if fx is not None:
            kw["fix_time_window"] = fx
        return o.setup_optim_problem(prices, g, **kw)

    def do_split(self, B, st, twin):
        o = B.obj(st["obj"])
        g = B.grid(st["grid"])
        prices = B.prices(st["prices"])
        kw = {}
        fx = self.fix_for(st, twin)
        if fx is not None:
            kw["fix_time_window"] = fx
        return o.setup_split_optim_problem(prices, g, interval_size=st["interval"], **kw)

    def do_samples(self, B, st, gid_eff, twin):
        o = B.obj(st["obj"])
        explicit = st.get("grid")
        if explicit is None and twin and gid_eff not in (None, AMBIG):
            self.twin_precondition(B, st["obj"], gid_eff)
        g = B.grid(explicit) if explicit is not None else None
        if st.get("list_id") and not twin:
            lst = self.lists.setdefault(st["list_id"], [B.prices(p) for p in st["prices"]])   # the same list object again
            if len(self.lists) and st["list_id"] in self.lists_used:
                self.probe("sample_list_reused")
            self.lists_used.add(st["list_id"])
        else:
            lst = [B.prices(p) for p in st["prices"]]
        return o.create_cost_samples(lst, g)

    def fresh_twin(self):
        """Brand-new objects from the pristine spec, holding what the user's objects hold now (price updates,
        assigned parameters)."""
        tw = specs.Builder(self.w)
        tw.price_updates = self.price_updates    # the fresh twin's price containers hold what the user's hold now
        if self.attr_updates:
            # as in the history: every object (wrappers included) exists before the user assigns anything
            for aid in sorted(self.w["assets"], key=lambda a_: int(a_[1:])):
                try:
                    tw.asset(aid)
                except Exception:
                    pass
            for aid, ups in self.attr_updates.items():
                for attr, new in ups:
                    setattr(tw.asset(aid), attr, new)
        return tw

    # ---- judged step
    def judged(self, i, st, sys_fn, twin_fn, gid_eff, judge=True, rtol=None, twin2_fn=None):
        self.stats["calls"] += 1
        s = _call(lambda: sys_fn(self.B))
        ev = {"step": i, "op": st["op"], "client": st.get("client")}
        if s.exc is not None:
            ev["out"] = "raise:%s@%s" % canon.exc_sig(s.exc)
        else:
            cs = canon.canon_op(s.val)
            ev["out"] = canon.digest_canon(cs)
        if judge:
            self.stats["judged"] += 1
            self.stats["twin_calls"] += 1
            tw = self.fresh_twin()
            t = _call(lambda: twin_fn(tw))
            v = None
            if s.exc is not None and t.exc is not None:
                self.stats["both_raise"] += 1
                if canon.exc_sig(s.exc) != canon.exc_sig(t.exc):
                    self.stats["both_raise_diff"] += 1
            elif s.exc is not None:
                et, fr = canon.exc_sig(s.exc)
                v = {"clause": "breaks-later-call", "field": "%s@%s" % (et, fr),
                     "detail": "after this history the call raises %s (%s) in %s; the same call on fresh objects succeeds"
                               % (et, str(s.exc)[:160], fr)}
            elif t.exc is not None:
                et, fr = canon.exc_sig(t.exc)
                v = {"clause": "history-makes-call-succeed", "field": "%s@%s" % (et, fr),
                     "detail": "the call succeeds after this history but raises %s (%s) on fresh objects" % (et, str(t.exc)[:160])}
            else:
                d = canon.diff_canon(cs, canon.canon_op(t.val)) if rtol is None else \
                    canon.diff_canon(cs, canon.canon_op(t.val), rtol=rtol, atol=rtol)
                if d:
                    v = {"clause": "twin-mismatch", "field": _field(d), "detail": d}
                elif twin2_fn is not None:
                    t2 = _call(lambda: twin2_fn(self.fresh_twin()))
                    self.stats["none_vs_explicit_checked"] = self.stats.get("none_vs_explicit_checked", 0) + 1
                    if t2.exc is None:
                        d = canon.diff_canon(cs, canon.canon_op(t2.val))
                        if d:
                            v = {"clause": "stored-grid-differs-from-given-grid", "field": _field(d),
                                 "detail": "set-up with the stored grid (timegrid=None) differs from the same set-up on fresh objects with that grid handed in: " + d}
            if v is not None:
                v["step"] = i
                v["op"] = st["op"] + ("(None)" if ("grid" in st and st.get("grid") is None) else "")
                v["signature"] = "%s|%s|%s|%s" % (ID, v["clause"], v["op"], v["field"])
                self.violation = v
        else:
            self.stats["not_judged_ambiguous"] += 1
        self.events.append(ev)
        return s

    # ---- step dispatch
    def step(self, i, st):
        op = st["op"]
        M = self.M
        w = self.w
        if "obj" in st and st["obj"][0] == "a" and st["obj"] not in w["assets"]:
            self.stats["noop_steps"] += 1
            return
        if "obj" in st and st["obj"][0] == "P" and st["obj"] not in w["portfolios"]:
            self.stats["noop_steps"] += 1
            return
        if op == "a.set_attr":
            if not getattr(self, "_all_built", False):
                # as in the twin: every object (wrappers included) exists before the user assigns anything - a LinkedAsset copies
                # attributes of the asset it links to when it is constructed (vp check 3, VERIF_SEED=1 run 108: the system built
                # the wrapper lazily, after the assignment, the twin before it)
                for aid_ in sorted(self.w["assets"], key=lambda a_: int(a_[1:])):
                    try:
                        self.B.asset(aid_)
                    except Exception:
                        pass
                self._all_built = True
            a = self.B.asset(st["obj"])
            for attr in [st["attr"]] + list(st.get("alt", [])):     # the first listed attribute this asset has as a scalar
                new = specs.bump_attr(a, attr)
                if new is not None:
                    setattr(a, attr, new)
                    self.attr_updates.setdefault(st["obj"], []).append((attr, new))
                    self.probe("parameter_assigned_between_calls")
                    self.events.append({"step": i, "op": op, "out": "%s=%r" % (attr, new)})
                    return
            self.stats["noop_steps"] += 1
            return
        if op == "p.update":
            pid = st["prices"]
            ps = w["prices"].get(pid)
            if ps is None or ps["form"] not in ("dict_nd", "df_num", "df_dti") or st["key"] not in ps["cols"]:
                self.stats["noop_steps"] += 1
                return
            u = [st["key"], st["mul"], st["add"], st.get("style", "assign")]
            specs.apply_price_update(self.B.prices(pid), *u)
            self.price_updates.setdefault(pid, []).append(u)
            self.probe("price_container_updated")
            self.events.append({"step": i, "op": op, "out": "ok"})
        elif op == "a.set_tg":
            self.stats["calls"] += 1
            s = _call(lambda: self.B.asset(st["obj"]).set_timegrid(self.B.grid(st["grid"])))
            M.touch(st["obj"], st["grid"], s.exc is None, only_self=True)
            # set_timegrid does not propagate to wrapped assets: only the asset itself was given the grid
            self.events.append({"step": i, "op": op, "out": "ok" if s.exc is None else "raise:%s@%s" % canon.exc_sig(s.exc)})
        elif op == "P.set_tg":
            self.stats["calls"] += 1
            self.B.portfolio(st["obj"]).set_timegrid(self.B.grid(st["grid"]))
            M.given[st["obj"]] = st["grid"]
            self.events.append({"step": i, "op": op, "out": "ok"})
        elif op in ("a.setup", "P.setup"):
            gid = self.eff_grid(st)
            if st.get("fix") and "I" in st["fix"] and st["fix"]["id"] not in self.fixes:
                rec = self.last.get(st["obj"])
                if rec is not None and rec.get("res") is not None and not isinstance(rec["res"], str):
                    x = np.array(rec["res"].x, dtype=float)
                    self.fixes[st["fix"]["id"]] = {"I": st["fix"]["I"], "x": x.copy(),
                                                   "sys": {"I": specs.mat(st["fix"]["I"]), "x": x.copy()}}
            judge = gid != AMBIG
            self.probes_before(st, gid)
            self.record_pair(st, gid)
            twin2 = (lambda B: self.do_setup(B, st, gid, "explicit")) if (st.get("grid") is None and gid not in (None, AMBIG)) else None
            s = self.judged(i, st, lambda B: self.do_setup(B, st, gid, False), lambda B: self.do_setup(B, st, gid, True),
                            gid, judge=judge, twin2_fn=twin2)
            ok = s.exc is None
            if gid == AMBIG:
                M.smear(st["obj"])
            if gid not in (None, AMBIG):
                M.touch(st["obj"], gid, ok)
                for d in M.shared_dicts_of(st["obj"]):
                    M.dict_zone[d] = M.zone(gid)
                M.prices_grid[st["prices"]] = gid
                if st.get("fix") and st["fix"]["id"] in self.fixes:
                    M.fix_used.setdefault(st["fix"]["id"], set()).add(gid)
            if ok and not st.get("costs_only"):
                self.last[st["obj"]] = {"op": s.val, "res": None, "grid": gid, "prices": st["prices"], "cast": st.get("cast")}
                if op == "P.setup" and not st.get("fix") and not st.get("skip_nodes"):
                    self.last_on_grid[(st["obj"], gid)] = s.val
            if not ok:
                self.count_fault_from_exc(s.exc)
        elif op == "P.split":
            gid = st["grid"]
            self.probes_before(st, gid)
            self.record_pair(st, gid)
            s = self.judged(i, st, lambda B: self.do_split(B, st, False), lambda B: self.do_split(B, st, True), gid)
            ok = s.exc is None
            M.touch(st["obj"], gid, ok, split=True)
            for d in M.shared_dicts_of(st["obj"]):
                M.dict_zone[d] = M.zone(gid)
            M.prices_grid[st["prices"]] = gid
            if st.get("fix") and st["fix"]["id"] in self.fixes:
                M.fix_used.setdefault(st["fix"]["id"], set()).add(gid)
            if ok:
                self.last[st["obj"]] = {"op": s.val, "res": None, "grid": gid, "prices": st["prices"], "cast": True}
            else:
                self.fault("failed_split")
                M.failed_split.add(st["obj"])
                for a in subtree_assets(w, st["obj"]):
                    M.failed_split.add(a)
                self.count_fault_from_exc(s.exc)
        elif op == "P.samples":
            gid = self.eff_grid(st)
            judge = gid != AMBIG
            self.record_pair(st, gid)
            s = self.judged(i, st, lambda B: self.do_samples(B, st, gid, False), lambda B: self.do_samples(B, st, gid, True),
                            gid, judge=judge)
            if gid == AMBIG:
                M.smear(st["obj"])
            if gid not in (None, AMBIG):
                M.touch(st["obj"], gid, s.exc is None)
        elif op == "g.v2g":
            if st["dict"] not in w["dicts"]:
                self.stats["noop_steps"] += 1
                return
            z = M.dict_zone.get(st["dict"])
            if z is not None and z != M.zone(st["grid"]):
                self.probe("dict_other_zone")
            self.pairs.add(("N|" if z not in (None, M.zone(st["grid"])) else "T|") + "g.v2g|" + str(z is None) + "," + str(z == M.zone(st["grid"])))
            self.judged(i, st, lambda B: B.grid(st["grid"]).values_to_grid(B.shared_dict(st["dict"])),
                        lambda B: B.grid(st["grid"]).values_to_grid(B.shared_dict(st["dict"])), st["grid"])
            M.dict_zone[st["dict"]] = M.zone(st["grid"])
        elif op == "g.p2g":
            pg = M.prices_grid.get(st["prices"])
            if pg is not None and pg != st["grid"] and w["prices"][st["prices"]]["form"] == "df_num":
                self.probe("numeric_df_second_grid")
            self.pairs.add(("N|" if pg not in (None, st["grid"]) else "T|") + "g.p2g|" + w["prices"][st["prices"]]["form"] + "," + str(pg is None) + "," + str(pg == st["grid"]))
            self.judged(i, st, lambda B: B.grid(st["grid"]).prices_to_grid(B.prices(st["prices"])),
                        lambda B: B.grid(st["grid"]).prices_to_grid(B.prices(st["prices"])), st["grid"])
            M.prices_grid[st["prices"]] = st["grid"]
        else:
            self.history_step(i, st)

    def probes_before(self, st, gid):
        M = self.M
        o = st["obj"]
        if gid in (None, AMBIG):
            return
        if st.get("grid") is None and o[0] == "a":
            own = M.owner.get(gid)
            if own is not None and own not in subtree_assets(self.w, o):
                self.probe("none_grid_after_foreign_write")
        z = M.zone(gid)
        if any(M.dict_zone.get(d) not in (None, z) for d in M.shared_dicts_of(o)):
            self.probe("dict_other_zone")
        pid = st.get("prices")
        if st.get("cast") and isinstance(pid, str) and self.w["prices"][pid]["form"] == "df_num" \
                and M.prices_grid.get(pid) not in (None, gid):
            self.probe("numeric_df_second_grid")
        if st.get("fix") and st["fix"]["id"] in self.fixes and (M.fix_used.get(st["fix"]["id"]) or st["op"] == "P.split"):
            self.probe("fix_dict_reuse")
        if o in M.failed_split:
            self.probe("setup_after_failed_split")
        if o[0] == "a" and o in M.clipped:
            self.probe("inner_asset_after_structured")

    def count_fault_from_exc(self, e):
        et, fr = canon.exc_sig(e)
        msg = str(e)
        if "Overlapping" in msg:
            self.fault("overlapping_intervals")
        elif "nan value" in msg:
            self.fault("nan_in_problem")
        elif "Length of" in msg or "length" in msg.lower():
            self.fault("wrong_length_prices")
        elif et in ("AssertionError", "KeyError") and ("found" in msg or et == "KeyError"):
            self.fault("missing_price_key")
        elif "min_cap > max_cap" in msg:
            self.fault("min_gt_max")
        else:
            self.fault("other_failed_call")

    def history_step(self, i, st):
        """Calls that only make history; their own results are not compared under C10."""
        import eaopack as eao
        op = st["op"]
        M = self.M
        self.stats["calls"] += 1
        out = "ok"
        try:
            if op == "optimize":
                rec = self.last.get(st["obj"])
                if rec is None or rec["op"] is None:
                    self.stats["noop_steps"] += 1
                    self.stats["calls"] -= 1
                    return
                kw = {}
                if st.get("solver"):
                    kw["solver"] = st["solver"]
                ss = seams.SimSolver([st.get("fault")] if st.get("fault") else [])
                try:
                    with ss:
                        res = rec["op"].optimize(**kw)
                finally:
                    for k, v in ss.fired.items():   # counted when fired, also when the call then raises
                        self.faults["solver_" + k] = self.faults.get("solver_" + k, 0) + v
                rec["res"] = res
                out = "res:%s" % (res if isinstance(res, str) else canon.digest_canon({"v": float(res.value)}, nd=5))
            elif op == "extract":
                rec = self.last.get(st["obj"])
                if rec is None or rec.get("res") is None:
                    self.stats["noop_steps"] += 1
                    self.stats["calls"] -= 1
                    return
                eao.io.extract_output(self.B.portfolio(st["obj"]), rec["op"], rec["res"])
            elif op == "dcf":
                # per-asset evaluation of an earlier result: discounted cash flows, fill levels of storages
                rec = self.last.get(st["obj"])
                if rec is None or rec.get("res") is None or isinstance(rec["res"], str):
                    self.stats["noop_steps"] += 1
                    self.stats["calls"] -= 1
                    return
                for a_ in self.B.portfolio(st["obj"]).assets:
                    a_.dcf(rec["op"], rec["res"])
                    if hasattr(a_, "fill_level"):
                        a_.fill_level(rec["op"], rec["res"])
            elif op == "io.optimize":
                # the shortcut casts the data, sets the problem up, solves and extracts: its value is a function of the
                # problem it built, so it is judged like a set-up (same solver on the same problem gives the same value)
                gid = st["grid"]
                self.stats["calls"] -= 1

                def run_io(B):
                    out_ = eao.io.optimize(B.portfolio(st["obj"]), B.grid(gid), B.prices(st["prices"]), split_interval_size=st.get("split"))
                    sm = out_.get("summary")
                    if hasattr(sm, "loc"):
                        return np.array([float(sm.loc["value", "Values"])])
                    return np.array([float("nan")])
                self.record_pair(dict(st, op="io.optimize"), gid)
                s_ = self.judged(i, st, run_io, run_io, gid, rtol=1e-6)
                ok = s_.exc is None
                M.touch(st["obj"], gid, ok, split=bool(st.get("split")))
                for d in M.shared_dicts_of(st["obj"]):
                    M.dict_zone[d] = M.zone(gid)
                M.prices_grid[st["prices"]] = gid
                if not ok and st.get("split"):
                    M.failed_split.add(st["obj"])
                    for a in subtree_assets(self.w, st["obj"]):
                        M.failed_split.add(a)
                return
            elif op == "slp":
                gid = st["grid"]
                op0 = self.last_on_grid.get((st["obj"], gid))
                if op0 is None or not hasattr(op0, "A") or op0.A is None:
                    self.stats["noop_steps"] += 1
                    self.stats["calls"] -= 1
                    return
                rec_last = self.last.get(st["obj"])
                if rec_last is not None and rec_last.get("grid") != gid:
                    self.probe("slp_after_setup_on_other_grid")
                # make_slp builds a problem too (from a problem, the portfolio, the grid and price samples): judged.  The
                # start problem is data; the same data is handed to the live portfolio and to a brand-new one.
                data = copy.deepcopy(op0)

                def run_slp(B):
                    return eao.stoch_lin_prog.make_slp(copy.deepcopy(data), B.portfolio(st["obj"]), B.grid(gid),
                                                      specs.mat(st["start_future"]), [B.prices(p) for p in st["prices"]])
                ok = False
                try:
                    s_ = self.judged(i, st, run_slp, run_slp, gid)
                    ok = s_.exc is None
                    if s_.exc is not None:
                        self.count_fault_from_exc(s_.exc)
                    self.stats["calls"] -= 1      # (counted once, below)
                finally:
                    # make_slp sets the grid's restricted part itself and re-runs the portfolio's cost set-up
                    M.touch(st["obj"], gid, ok)
                    M.slp_grid.add(gid)
                return
            elif op == "g.restrict":
                g = self.B.grid(st["grid"])
                g.set_restricted_grid(specs.mat(st.get("start")), specs.mat(st.get("end")))
                M.owner[st["grid"]] = "user"
            elif op == "g.wacc":
                self.B.grid(st["grid"]).set_wacc(st["wacc"])
                M.grid_wacc[st["grid"]] = st["wacc"]
            elif op in ("to_json", "roundtrip", "params", "set_param"):
                # serialise calls are later calls too: one that fails on the used objects must fail on fresh ones as well
                if any(a in M.chp_setup for a in subtree_assets(self.w, st["obj"])):
                    self.probe("serialise_after_chp_setup")

                def ser(B):
                    o = B.obj(st["obj"])
                    if op == "to_json":
                        eao.serialization.to_json(o)
                    elif op == "roundtrip":
                        eao.serialization.load_from_json(eao.serialization.to_json(o))
                    elif op == "params":
                        eao.io.get_params_tree(o)
                    else:
                        # io.set_param returns a new object built through JSON; the object it was given must stay as it was
                        tree = eao.io.get_params_tree(o)[0]
                        path = ["name"] if "name" in tree else next((list(t_) for t_ in tree if isinstance(t_, list) and t_ and t_[-1] == "name"), None)
                        if path is not None:
                            eao.io.set_param(o, path, "renamed")
                s_ = _call(lambda: ser(self.B))
                if s_.exc is not None:
                    out = "raise:%s@%s" % canon.exc_sig(s_.exc)
                    t_ = _call(lambda: ser(self.fresh_twin()))
                    self.stats["twin_calls"] += 1
                    if t_.exc is None:
                        et, fr = canon.exc_sig(s_.exc)
                        self.violation = {"clause": "breaks-later-call", "field": "%s@%s" % (et, fr), "step": i, "op": op,
                                          "detail": "after this history %s raises %s (%s) in %s; the same call on fresh objects succeeds"
                                                    % (op, et, str(s_.exc)[:160], fr),
                                          "signature": "%s|%s|%s|%s@%s" % (ID, "breaks-later-call", op, et, fr)}
                if op == "set_param":
                    self.probe("set_param_called")
            elif op == "to_json_file":
                o = self.B.obj(st["obj"])
                if True:
                    faults = [("write", "eio_close")] if st.get("fault") == "eio" else []
                    try:
                        with self.disk.mounted(faults) as d:
                            eao.serialization.to_json(o, "obj_%d.json" % i)
                    finally:
                        for k, v in self.disk.fired.items():
                            self.faults["disk_" + k] = self.faults.get("disk_" + k, 0) + v
                        self.disk.fired.clear()
            elif op == "graph":
                eao.network_graphs.create_graph(self.B.portfolio(st["obj"]), no_image_output=True)
            else:
                raise core.HarnessError("unknown op " + op)
        except core.HarnessError:
            raise
        except Exception as e:
            out = "raise:%s@%s" % canon.exc_sig(e)
            if isinstance(e, seams.InjectedFault):
                pass
        self.events.append({"step": i, "op": op, "out": out})

    def control(self, pristine=False):
        """Control calls: every top-level portfolio of the world set up on *fresh* objects.  Run once before the
        history (process state as after import) and once after it: a difference means the history changed what
        even brand-new objects build - state kept at module or class level (mutable defaults, caches keyed by
        name ...), which the fresh twin alone cannot see because it lives in the same process."""
        out = {}
        grids = sorted(self.w["grids"], key=lambda g: int(g[1:]))
        g = grids[0]
        pr = [p for p in sorted(self.w["prices"], key=lambda p: int(p[1:])) if self.w["prices"][p]["grid"] == g and self.w["prices"][p]["form"] == "dict_nd"]
        if not pr:
            return out
        def one(P):
            B = specs.Builder(self.w)
            o = _call(lambda: B.portfolio(P).setup_optim_problem(B.prices(pr[0]), B.grid(g)))
            return ("raise", canon.exc_sig(o.exc)) if o.exc is not None else ("ok", canon.canon_op(o.val))
        for P in top_portfolios(self.w)[:3]:
            if pristine and not self.plan.get("_no_fork_control"):
                # each control result comes from its own child of the still pristine run process, so that not even the
                # other control calls share module state with it
                out[P] = core.in_child(one, P)
                if isinstance(out[P], dict) and out[P].get("harness_error"):
                    raise core.HarnessError(out[P]["harness_error"])
            else:
                out[P] = one(P)
        return out

    def run(self):
        with core.quiet():
            ctrl0 = self.control(pristine=True)
            for i, st in enumerate(self.plan["plan"]):
                self.step(i, st)
                if self.violation is not None:
                    break
            if self.violation is None:
                ctrl1 = self.control()
                self.stats["control_calls"] = self.stats.get("control_calls", 0) + len(ctrl1)
                for P in ctrl0:
                    a, b = ctrl0[P], ctrl1.get(P)
                    d = None
                    if b is None or a[0] != b[0]:
                        d = "before the history: %s, after it: %s" % (a[0], None if b is None else b[0])
                    elif a[0] == "ok":
                        d = canon.diff_canon(b[1], a[1])
                    if d:
                        self.violation = {"clause": "fresh-objects-affected-by-history", "field": _field(d), "step": len(self.plan["plan"]),
                                          "op": "control:P.setup", "detail": "set-up of portfolio %s on brand-new objects differs after the history from "
                                          "the same set-up before it (state kept at module / class level): %s" % (P, d)}
                        self.violation["signature"] = "%s|%s|%s|%s" % (ID, self.violation["clause"], self.violation["op"], self.violation["field"])
                        break
        return self.result()

    def result(self):
        dg = canon.digest_canon([(e["step"], e["op"], e["out"]) for e in self.events])
        return {"violation": self.violation, "digest": dg, "stats": self.stats, "faults": self.faults,
                "probes": self.probes, "pairs": sorted(self.pairs), "n_steps": len(self.plan["plan"]),
                "n_clients": self.plan.get("cfg", {}).get("clients", 1),
                "interleaving": "".join(str(s.get("client", 0)) for s in self.plan["plan"])}


def execute(plan):
    return Exec(plan).run()


# --------------------------------------------------------------------------- shrinking helpers


def simplify_candidates(plan):
    """World-level simplifications tried after ddmin over steps."""
    w = plan["world"]
    used = set()
    for st in plan["plan"]:
        for k in ("obj", "grid", "dict"):
            if isinstance(st.get(k), str):
                used |= specs.referenced_ids(w, st[k]) if st[k][0] in "aPd" else {st[k]}
    # 1. drop assets from portfolios
    for pid in sorted(w["portfolios"]):
        assets = w["portfolios"][pid]["assets"]
        if len(assets) > 1:
            for a in assets:
                if any(st.get("obj") == a for st in plan["plan"]):
                    continue
                c = copy.deepcopy(plan)
                c["world"]["portfolios"][pid]["assets"] = [x for x in assets if x != a]
                yield c
    # 2. drop optional keyword arguments of assets that are used
    keep = ("name", "nodes", "size", "cap_in", "cap_out", "portfolio", "base_asset", "orders", "asset1_variable",
            "asset2_variable", "min_cap", "max_cap")
    for aid in sorted(w["assets"]):
        if aid not in used:
            continue
        for k in sorted(w["assets"][aid]["kw"]):
            if k in keep:
                continue
            c = copy.deepcopy(plan)
            del c["world"]["assets"][aid]["kw"][k]
            yield c
    # 3. drop flags on steps
    for i, st in enumerate(plan["plan"]):
        for k in ("cast", "costs_only", "skip_nodes", "fix", "fault"):
            if st.get(k):
                c = copy.deepcopy(plan)
                c["plan"][i].pop(k)
                yield c


# --------------------------------------------------------------------------- aggregation


def aggregate(results):
    agg = {"stats": {}, "faults_fired": {}, "probes": {}, }
    pairs, inter, digs = set(), set(), set()
    steps = 0
    samples = []
    for r in results:
        if r.get("harness_error"):
            continue
        core.merge_counts(agg["stats"], r.get("stats"))
        core.merge_counts(agg["faults_fired"], r.get("faults"))
        core.merge_counts(agg["probes"], r.get("probes"))
        pairs.update(r.get("pairs", []))
        inter.add((r.get("n_clients"), r.get("interleaving")))
        digs.add(r.get("digest"))
        steps += r.get("n_steps", 0)
        if len(samples) < 3 and r.get("plan"):
            w = r["plan"]["world"]
            samples.append({"run_index": r["run_index"], "seed": r["seed"], "grids": w["grids"],
                            "assets": {a: s["cls"] for a, s in w["assets"].items()},
                            "portfolios": w["portfolios"], "steps": r["plan"]["plan"]})
    nt = sorted(p for p in pairs if p.startswith("N|"))
    agg["evaluations"] = len([r for r in results if not r.get("harness_error")])
    agg["distinct_nontrivial"] = len(nt)
    agg["distinct_pairs_total"] = len(pairs)
    agg["rule"] = ("one evaluation = one simulated run (world + interleaved client scripts of <= 40 API calls, every judged "
                   "call executed on the long-lived shared objects and on a fresh twin). distinct_nontrivial counts distinct "
                   "(abstract state, judged-op kind) pairs reached in which the abstract state records a relevant history: "
                   "grid.restricted last written by a foreign asset, previous set-up on another grid (by zone / frequency / "
                   "main unit / horizon), shared dict normalised for another zone, price table used on another grid, fix "
                   "dict reused, previous call failed, inner asset clipped by a wrapper, failed split before; pairs whose "
                   "state shows no history are trivial and not counted")
    agg["api_calls_executed"] = agg["stats"].get("calls", 0) + agg["stats"].get("twin_calls", 0)
    agg["simulated_time"] = "%d logical steps (EAO reads no clock; dates are data)" % steps
    agg["distinct_interleavings"] = len(inter)
    agg["distinct_event_log_digests"] = len(digs)
    agg["sample_nontrivial_pairs"] = nt[:12]
    agg["samples"] = samples or [{"note": "plans are kept only for the first runs", "pairs": nt[:5]}]
    return agg
