"""Reference solver: scipy.optimize.milp (HiGHS) called directly on (c,l,u,A,b,cType,bools) - no cvxpy in
the path.  Every verdict the checks build on it is certified by a *witness*: a point whose feasibility is
re-checked in numpy.  (HiGHS' presolve occasionally calls a feasible MIP infeasible; an unverifiable
'infeasible' is therefore never used against EAO, and is retried without presolve.)"""
import numpy as np
import scipy.sparse as sp


def parts(op):
    n = len(op.c)
    if op.A is None or op.A.shape[0] == 0:
        return sp.csr_matrix((0, n)), np.zeros(0), ""
    return sp.csr_matrix(op.A), np.asarray(op.b, float), str(op.cType)


def max_violation(op, z, bools=(), tol_int=1e-6):
    """Largest scaled violation of bounds / rows / integrality at z."""
    A, b, ct = parts(op)
    l, u = np.asarray(op.l, float), np.asarray(op.u, float)
    v = max(float(np.maximum(z - u, 0).max(initial=0)), float(np.maximum(l - z, 0).max(initial=0)))
    if A.shape[0]:
        Az = A @ z
        scale = 1 + np.abs(b) + abs(A) @ np.abs(z)
        for i, t in enumerate(ct):
            r = Az[i] - b[i]
            if t == "U":
                r = max(r, 0)
            elif t == "L":
                r = max(-r, 0)
            else:
                r = abs(r)
            v = max(v, r / scale[i])
    for i in bools:
        v = max(v, min(abs(z[i]), abs(z[i] - 1)))
    return v


def solve(op, bools, gap=0.0):
    """(status, value, x): status 'optimal' (x is a numpy-verified feasible witness with value -c.x),
    'infeasible' (HiGHS says so with and without presolve - not certified), or 'unknown'."""
    from scipy.optimize import milp, LinearConstraint, Bounds
    A, b, ct = parts(op)
    n = len(op.c)
    cons = []
    if A.shape[0]:
        lo = np.full(len(b), -np.inf)
        hi = np.full(len(b), np.inf)
        for i, t in enumerate(ct):
            if t == "U":
                hi[i] = b[i]
            elif t == "L":
                lo[i] = b[i]
            else:
                lo[i] = hi[i] = b[i]
        cons = [LinearConstraint(A, lo, hi)]
    integ = np.zeros(n)
    l, u = np.asarray(op.l, float).copy(), np.asarray(op.u, float).copy()
    for i in bools:
        integ[i] = 1
        l[i] = max(l[i], 0.0)
        u[i] = min(u[i], 1.0)
    if (l > u).any():
        return "infeasible", None, None
    verdicts = []
    for presolve in (True, False):
        try:
            r = milp(c=np.asarray(op.c, float), constraints=cons, integrality=integ, bounds=Bounds(l, u),
                     options={"mip_rel_gap": gap, "node_limit": 100000, "presolve": presolve})
        except Exception:
            verdicts.append("unknown")
            continue
        if r.status == 0 and r.x is not None:
            x = np.asarray(r.x, float)
            if max_violation(op, x, bools) <= 1e-6:
                return "optimal", float(-np.asarray(op.c, float) @ x), x
            verdicts.append("unknown")
        elif r.status == 2:
            verdicts.append("infeasible")
        else:
            verdicts.append("unknown")
    if verdicts and all(v == "infeasible" for v in verdicts):
        return "infeasible", None, None
    return "unknown", None, None
