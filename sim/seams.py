"""The two seams the simulator owns: the solver peer behind cvxpy.Problem.solve and the disk behind
the name `open` in eaopack.serialization.  Both are installed from the harness (no hook in /repo);
neither draws random numbers nor reads a clock - every fault is decided by the plan."""
import codecs
import contextlib
import errno
import io

import numpy as np

STATUSES = ["optimal_inaccurate", "infeasible", "unbounded", "infeasible_inaccurate", "unbounded_inaccurate",
            "user_limit", "infeasible_or_unbounded", "solver_error"]


class InjectedFault(Exception):
    pass


class SimCrash(BaseException):
    """Process crash injected by the simulator (not an Exception: EAO must not be able to swallow it)."""


# --------------------------------------------------------------------------- solver peer


def budget_kwargs(solver_name):
    """Deterministic iteration / solution limits per back-end (no wall-clock limits: they do not replay)."""
    s = (solver_name or "").upper()
    if s == "CLARABEL":
        return {"max_iter": 2}
    if s == "SCS":
        return {"max_iters": 5}
    if s == "OSQP":
        return {"max_iter": 5}
    if s == "SCIPY":
        return {"scipy_options": {"maxiter": 1}}
    if s == "SCIP":
        return {"scip_params": {"limits/solutions": 1}}
    return {}


SCIP_NODE_LIMIT = 3000
HIGHS_NODE_LIMIT = 20000
GUARD_STATS = {"mip_solves_bounded": 0}


@contextlib.contextmanager
def solver_guard():
    """Installed around every simulated run: every MIP solve gets a *deterministic* work bound (branch
    and bound node limit; never a wall-clock limit, which would not replay).  A solve that hits the
    bound ends as 'optimal_inaccurate' / SolverError - outcomes on which no property makes a claim."""
    import cvxpy
    orig = cvxpy.Problem.solve

    def solve(prob, *args, **kwargs):
        try:
            mip = prob.is_mixed_integer()
        except Exception:
            mip = False
        if mip:
            eff = kwargs.get("solver") or "SCIP"
            if str(eff).upper() == "SCIP" and "scip_params" not in kwargs:
                kwargs["scip_params"] = {"limits/nodes": SCIP_NODE_LIMIT}
                GUARD_STATS["mip_solves_bounded"] += 1
            elif str(eff).upper() == "SCIPY" and "scipy_options" not in kwargs:
                kwargs["scipy_options"] = {"node_limit": HIGHS_NODE_LIMIT}
                GUARD_STATS["mip_solves_bounded"] += 1
        return orig(prob, *args, **kwargs)
    cvxpy.Problem.solve = solve
    try:
        yield
    finally:
        cvxpy.Problem.solve = orig


class SimSolver:
    """Wrapper over cvxpy.Problem.solve.  faults[k] decides what happens to the k-th solve call inside
    the context: None (real answer), 'raise', 'budget', 'status:<s>'.  `on_request(problem, kwargs)` is
    called before anything else so that a check can inspect the request EAO built."""

    def __init__(self, faults=None, on_request=None):
        self.faults = list(faults or [])
        self.on_request = on_request
        self.log = []
        self.fired = {}
        self._orig = None

    def __enter__(self):
        import cvxpy
        self._cvx = cvxpy
        self._orig = cvxpy.Problem.solve
        sim = self

        def solve(prob, *args, **kwargs):
            return sim._solve(prob, *args, **kwargs)
        cvxpy.Problem.solve = solve
        return self

    def __exit__(self, *exc):
        self._cvx.Problem.solve = self._orig
        return False

    def _fire(self, k):
        self.fired[k] = self.fired.get(k, 0) + 1

    def _solve(self, prob, *args, **kwargs):
        k = len(self.log)
        fault = self.faults[k] if k < len(self.faults) else None
        solver = kwargs.get("solver")
        is_mip = prob.is_mixed_integer()
        rec = {"call": k, "solver": solver, "fault": fault, "mip": bool(is_mip), "status": None, "value": None,
               # options EAO itself hands to the peer (the pinned code passes none besides `solver`): limits or
               # tolerances set there are EAO's responsibility, not the peer's
               "eao_options": sorted(str(x) for x in kwargs if x != "solver") + (["<positional>"] if args else []),
               "n_vars": int(sum(v.size for v in prob.variables()))}
        self.log.append(rec)
        if self.on_request is not None:
            self.on_request(prob, kwargs, rec)
        if fault == "raise":
            self._fire("raise")
            rec["status"] = "raised"
            raise self._cvx.SolverError("simulated solver outage")
        if fault == "budget":
            eff = solver or ("SCIP" if is_mip else "CLARABEL")
            kw = dict(kwargs)
            kw["solver"] = eff
            kw.update(budget_kwargs(eff))
            try:
                out = self._orig(prob, *args, **kw)
            except Exception as e:
                rec["status"] = "raised:" + type(e).__name__
                self._fire("budget")
                raise
            rec["status"] = prob.status
            rec["value"] = None if prob.value is None else float(prob.value)
            try:
                rec["peer_values"] = {id(v): (None if v.value is None else np.array(v.value, dtype=float).copy()) for v in prob.variables()}
            except Exception:
                rec["peer_values"] = {}
            self._fire("budget")
            return out
        try:
            out = self._orig(prob, *args, **kwargs)
        except Exception as e:
            rec["status"] = "raised"         # the real peer raised (e.g. a MIP sent to an LP-only back-end)
            rec["raised"] = type(e).__name__
            raise
        # what the peer itself answered, before EAO touches it (variable values right after the solve)
        try:
            rec["peer_values"] = {id(v): (None if v.value is None else np.array(v.value, dtype=float).copy()) for v in prob.variables()}
        except Exception:
            rec["peer_values"] = {}
        if fault and fault.startswith("status:"):
            s = fault.split(":", 1)[1]
            prob._status = s
            if s in ("infeasible", "infeasible_inaccurate", "unbounded", "unbounded_inaccurate",
                     "infeasible_or_unbounded", "solver_error"):
                for v in prob.variables():
                    v.save_value(None)
                prob._value = {"infeasible": -np.inf, "infeasible_inaccurate": -np.inf, "unbounded": np.inf,
                               "unbounded_inaccurate": np.inf}.get(s, None)
                out = prob._value
            self._fire("status:" + s)
        rec["status"] = prob.status
        try:
            rec["value"] = None if prob.value is None else float(prob.value)
        except Exception:
            rec["value"] = None
        return out


# --------------------------------------------------------------------------- disk


class _SimFile:
    """File object of SimDisk with a position, so that 'w', 'a', 'x', 'r' and 'r+' (+ truncate) behave as on a real
    file system.  Faults: ('enospc'|'crash', k) after k written characters, ('eio_close',), ('eio_read',), ('short_read', k)."""

    def __init__(self, disk, path, mode, fault, encoding=None):
        self.disk, self.path, self.mode, self.fault = disk, path, mode, fault
        # The disk keeps what a utf-8 reader would see.  Any other encoding goes through its real codec (byte order
        # marks, characters the codec cannot express): bytes -> utf-8 text with surrogate escapes.
        enc = (encoding or getattr(disk, "default_encoding", None) or "utf-8").lower().replace("_", "-")   # no encoding given: the locale's
        self.enc = None if enc in ("utf-8", "utf8") else enc
        self.encoder = codecs.getincrementalencoder(self.enc)() if self.enc else None
        self.closed = False
        self.n = 0
        self.writes = any(c in mode for c in "wax+")
        if self.writes and hasattr(disk, "mtimes"):
            disk.clock += 1
            disk.mtimes[path] = disk.clock
        if "w" in mode:
            disk.files[path] = ""          # O_TRUNC is immediate
            disk.acked.pop(path, None)
            self.pos = 0
        elif "a" in mode or "x" in mode:
            if "x" in mode and path in disk.files:
                raise FileExistsError(errno.EEXIST, "File exists (SimDisk)", path)
            disk.files.setdefault(path, "")   # append keeps what is there
            disk.acked.pop(path, None)
            self.pos = len(disk.files[path])
        else:
            if path not in disk.files:
                raise FileNotFoundError(errno.ENOENT, "No such file (SimDisk)", path)
            self.pos = 0
            if "+" in mode:
                disk.acked.pop(path, None)   # opened for update: what is there is no longer an acknowledged save

    def _put(self, s):
        cur = self.disk.files[self.path]
        self.disk.files[self.path] = cur[:self.pos] + s + cur[self.pos + len(s):]
        self.pos += len(s)
        self.n += len(s)

    # -- writing
    def write(self, s):
        if self.encoder is not None:
            s = self.encoder.encode(s).decode("utf-8", "surrogateescape")
        f = self.fault
        if f and f[0] in ("enospc", "crash"):
            room = f[1] - self.n
            if len(s) > room:
                self._put(s[:max(room, 0)])
                self.disk._fire(f[0])
                if f[0] == "enospc":
                    raise OSError(errno.ENOSPC, "No space left on device (SimDisk)")
                raise SimCrash("crash while writing %s at character %d" % (self.path, self.n))
        self._put(s)
        return len(s)

    def flush(self):
        pass

    def truncate(self, size=None):
        size = self.pos if size is None else size
        self.disk.files[self.path] = self.disk.files[self.path][:size]
        return size

    def seek(self, pos, whence=0):
        self.pos = pos if whence == 0 else (self.pos + pos if whence == 1 else len(self.disk.files[self.path]) + pos)
        return self.pos

    def tell(self):
        return self.pos

    # -- reading
    def read(self, *a):
        f = self.fault
        data = self.disk.files[self.path][self.pos:]
        if f and f[0] == "eio_read":
            self.disk._fire("eio_read")
            raise OSError(errno.EIO, "Input/output error (SimDisk)")
        if f and f[0] == "short_read":
            self.disk._fire("short_read")
            data = data[:f[1]]
        if a and a[0] is not None and a[0] >= 0:
            data = data[:a[0]]          # read(n): at most n characters
        self.pos += len(data)
        if self.enc:
            data = data.encode("utf-8", "surrogateescape").decode(self.enc)
        return data

    def close(self):
        if self.closed:
            return
        self.closed = True
        f = self.fault
        if self.writes:
            if f and f[0] == "eio_close":
                self.disk._fire("eio_close")
                raise OSError(errno.EIO, "Input/output error on close (SimDisk)")
            if f and f[0] in ("enospc", "crash") and self.n >= f[1]:
                return
            self.disk.acked[self.path] = self.disk.files[self.path]

    def __enter__(self):
        return self

    def __exit__(self, et, ev, tb):
        if et is not None and issubclass(et, SimCrash):
            return False  # a crashed process closes nothing
        if et is not None:
            # an exception inside `with open(...)`: the file is closed, but nothing was acknowledged
            self.closed = True
            return False
        self.close()
        return False


class SimDisk:
    """path -> text.  `files` is what a reader sees; `acked` is the content of the last write that
    returned normally to the caller (open, write*, close all succeeded)."""

    def __init__(self):
        self.files = {}
        self.acked = {}
        self.mtimes = {}      # path -> simulated modification time (seconds of a clock that ticks with every open for writing)
        self.clock = 1_600_000_000
        self.fired = {}
        self._faults = []
        self.opens = 0

    def _fire(self, k):
        self.fired[k] = self.fired.get(k, 0) + 1

    def open(self, path, mode="r", *a, **k):
        self.opens += 1
        fault = None
        want = "write" if any(c in mode for c in "wax+") else "read"
        for i, f in enumerate(self._faults):
            if f[0] == want:
                fault = tuple(f[1:]) if not isinstance(f[1], (list, tuple)) else tuple(f[1])
                self._faults.pop(i)
                break
        if fault is not None and isinstance(fault[0], str) and "@" in fault[0]:
            kind, at = fault[0].split("@")
            fault = (kind, int(at))
        return _SimFile(self, str(path), mode, fault, encoding=k.get("encoding"))

    @contextlib.contextmanager
    def mounted(self, faults=None):
        """Install this disk as `open` of eaopack.serialization.  faults: list of ('write'|'read', kind)
        consumed by the next matching open; kind: 'enospc@k', 'crash@k', 'eio_close', 'eio_read', 'short_read@k'."""
        import eaopack.serialization as ser
        self._faults = [tuple(f) for f in (faults or [])]
        import os.path as osp
        had = "open" in ser.__dict__
        old = ser.__dict__.get("open")
        ser.open = self.open
        # code that asks the file system about a path first (isfile / exists) must see the simulated files too
        real = {k: getattr(osp, k) for k in ("isfile", "exists")}
        disk = self
        for k_, fn_ in real.items():
            setattr(osp, k_, (lambda fn: (lambda p: True if str(p) in disk.files else fn(p)))(fn_))
        # ... and code that asks for size / modification time (os.stat, getmtime, getsize) gets the simulated file's: the
        # modification time is a simulated clock that advances by one second with every open for writing
        import os as _os
        import types as _types
        real_stat, real_gm, real_gs = _os.stat, osp.getmtime, osp.getsize

        def _key(p):
            sp_ = str(p)
            if sp_ in disk.files:
                return sp_
            ap_ = [k for k in disk.files if _os.path.abspath(k) == sp_]
            return ap_[0] if ap_ else None

        def sim_stat(p, *a, **k):
            kk = _key(p)
            if kk is None:
                return real_stat(p, *a, **k)
            t = disk.mtimes.get(kk, 0)
            size = len(disk.files[kk].encode("utf-8", "surrogateescape"))
            return _types.SimpleNamespace(st_mode=0o100644, st_ino=abs(hash(kk)) % 10 ** 9, st_dev=1, st_nlink=1, st_uid=0, st_gid=0, st_size=size,
                                          st_atime=float(t), st_mtime=float(t), st_ctime=float(t), st_atime_ns=t * 10 ** 9,
                                          st_mtime_ns=t * 10 ** 9, st_ctime_ns=t * 10 ** 9)
        _os.stat = sim_stat
        osp.getmtime = lambda p: sim_stat(p).st_mtime
        osp.getsize = lambda p: sim_stat(p).st_size
        try:
            yield self
        finally:
            _os.stat, osp.getmtime, osp.getsize = real_stat, real_gm, real_gs
            for k_, fn_ in real.items():
                setattr(osp, k_, fn_)
            if had:
                ser.open = old
            else:
                del ser.open
            self._faults = []

    def crash(self):
        """Process crash: nothing but the files survives (their content is whatever reached them)."""
        return dict(self.files)


# --------------------------------------------------------------------------- the zone of the process (environment)


class ProcessZone:
    """The local time zone of the (simulated) process: TZ + time.tzset().  Naive datetimes mean wall-clock times to EAO and
    must not pick up the zone of the machine the process happens to run on; a restarted process may run in another zone."""

    def __init__(self):
        import os
        self.saved = os.environ.get("TZ")

    def set(self, name):
        import os, time
        if name is None:
            os.environ.pop("TZ", None)
        else:
            os.environ["TZ"] = name
        time.tzset()

    def restore(self):
        self.set(self.saved)


# --------------------------------------------------------------------------- configuration of the process (environment)


class process_env:
    """Configuration the deployment chooses, not the caller: pandas' copy-on-write mode (PANDAS_COPY_ON_WRITE / pd.options,
    the default from pandas 3 on).  (The interpreter's -O flag is handled in core.exec_with_env: it needs a new interpreter.)"""

    def __init__(self, env):
        self.env = env or {}

    def __enter__(self):
        import pandas as pd
        self.old = pd.options.mode.copy_on_write
        if self.env.get("pandas_cow"):
            pd.options.mode.copy_on_write = True
        self.zone = None
        if self.env.get("tz"):
            # the zone of the machine (see ProcessZone): EAO treats naive dates as wall-clock times of the grid's zone
            self.zone = ProcessZone()
            self.zone.set(self.env["tz"])
        return self

    def __exit__(self, *a):
        import pandas as pd
        pd.options.mode.copy_on_write = self.old
        if self.zone is not None:
            self.zone.restore()
        return False
