"""Self-tests of the harness: determinism (same seed twice, other worker count, other hash seed,
fresh interpreter) and sensitivity (planted mutants must be reported by the quick check)."""
import argparse
import os
import shutil
import subprocess
import sys
import tempfile
import time

from sim import core, mutants

PROPS = ["C03", "C10", "C11", "C15"]


def _run_check(prop, env_extra, args, timeout=1500):
    env = dict(os.environ)
    env.update(env_extra)
    p = subprocess.run([os.path.join(core.VERIF, "check"), prop] + args, capture_output=True, text=True,
                       timeout=timeout, env=env)
    return p.returncode, p.stdout + p.stderr


def determinism(props, runs, verbose=True):
    """N seeds x 2 executions at 16 and 3 workers, plus once under another PYTHONHASHSEED:
    the per-run event-log digests must be identical."""
    ok = True
    tmp = tempfile.mkdtemp(prefix="verif_det_")
    try:
        for prop in props:
            files = []
            for tag, env in (("w16", {"VERIF_WORKERS": "16", "PYTHONHASHSEED": "0"}),
                             ("w3", {"VERIF_WORKERS": "3", "PYTHONHASHSEED": "0"}),
                             ("hs", {"VERIF_WORKERS": "16", "PYTHONHASHSEED": "12345"})):
                f = os.path.join(tmp, "%s_%s.txt" % (prop, tag))
                rc, out = _run_check(prop, env, ["--tier", "quick", "--runs", str(runs), "--budget", "600",
                                                  "--no-evidence", "--digests", f])
                if rc != 0:
                    print("determinism: check %s exited %d under %s\n%s" % (prop, rc, tag, out[-1500:]))
                    ok = False
                files.append(f)
            datas = [open(f).read() if os.path.exists(f) else "" for f in files]
            n = len(datas[0].splitlines())
            same = all(d == datas[0] for d in datas) and n > 0
            if verbose:
                print("determinism %s: %d runs x 3 configurations (16 workers, 3 workers, PYTHONHASHSEED=12345): %s"
                      % (prop, n, "identical digests" if same else "DIGESTS DIFFER"))
            if not same:
                ok = False
                for a, b in zip(datas[0].splitlines(), datas[1].splitlines()):
                    if a != b:
                        print("  first difference: %s | %s" % (a, b))
                        break
    finally:
        shutil.rmtree(tmp, ignore_errors=True)
    return ok


def make_mutant_tree(mut):
    name, rel, old, new = mut
    tmp = tempfile.mkdtemp(prefix="verif_mut_")
    shutil.copytree(os.path.join(core.REPO, "eaopack"), os.path.join(tmp, "eaopack"),
                    ignore=shutil.ignore_patterns("__pycache__"))
    p = os.path.join(tmp, rel)
    s = open(p).read()
    olds, news = (old, new) if isinstance(old, list) else ([old], [new])
    for o, n in zip(olds, news):
        if s.count(o) != 1:
            shutil.rmtree(tmp, ignore_errors=True)
            raise core.HarnessError("mutant %s: anchor text occurs %d times in %s" % (name, s.count(o), rel))
        s = s.replace(o, n)
    open(p, "w").write(s)
    return tmp


def sensitivity(props, only=None, runs=None):
    ok = True
    for prop in props:
        for mut in mutants.MUTANTS.get(prop, []):
            if only and mut[0] not in only:
                continue
            t0 = time.time()
            tmp = make_mutant_tree(mut)
            try:
                args = ["--tier", "quick", "--no-evidence"]
                if runs:
                    args += ["--runs", str(runs)]
                rc, out = _run_check(prop, {"EAO_REPO": tmp}, args)
            finally:
                shutil.rmtree(tmp, ignore_errors=True)
            line = [l for l in out.splitlines() if l.startswith("minimised") or l.startswith("regression")]
            nruns = [l for l in out.splitlines() if l.startswith(prop + ":")]
            print("sensitivity %s/%s: exit %d in %.0f s %s %s" % (prop, mut[0], rc, time.time() - t0,
                                                                 "CAUGHT" if rc == 1 else "MISSED", (nruns or [""])[0]))
            if rc == 1 and line:
                print("    " + line[0][:260])
            if rc != 1:
                ok = False
                print(out[-800:])
            for f in os.listdir(os.path.join(core.VERIF, "replays")):
                # replays of planted mutants are not findings
                if f.startswith(prop + "-"):
                    os.remove(os.path.join(core.VERIF, "replays", f))
    return ok


def seeded(props, only=None):
    """Apply every change kept under /verif/seeded/<id>/patch.diff (written by independent sub-agents) to a scratch
    copy of the working tree; the quick check of its property must exit 1."""
    import json
    ok = True
    base = os.path.join(core.VERIF, "seeded")
    for sid in sorted(os.listdir(base)):
        meta = json.load(open(os.path.join(base, sid, "meta.json")))
        prop = meta.get("detected_by_check_of") or meta["property"]   # (a change may fall to the check of a neighbouring property)
        if prop not in props or (only and sid not in only):
            continue
        tmp = tempfile.mkdtemp(prefix="verif_seed_")
        t0 = time.time()
        try:
            shutil.copytree(os.path.join(core.REPO, "eaopack"), os.path.join(tmp, "eaopack"),
                            ignore=shutil.ignore_patterns("__pycache__"))
            p = subprocess.run(["git", "apply", "--include=eaopack/*", os.path.join(base, sid, "patch.diff")], cwd=tmp,
                               capture_output=True, text=True)
            if p.returncode != 0:
                print("seeded %s: patch does not apply to the current tree (%s)" % (sid, p.stderr.strip()[:200]))
                ok = False
                continue
            # (a few changes are only reached beyond the quick budget: meta.json names the run range of the thorough tier to use)
            rc, out = _run_check(prop, {"EAO_REPO": tmp}, ["--tier", "quick", "--no-evidence"] + list(meta.get("extra_check_args", [])))
        finally:
            shutil.rmtree(tmp, ignore_errors=True)
        line = [l for l in out.splitlines() if l.startswith("minimised") or l.startswith("regression")]
        nruns = [l for l in out.splitlines() if l.startswith(prop + ":")]
        print("seeded %s (%s): exit %d in %.0f s %s %s" % (sid, prop, rc, time.time() - t0, "CAUGHT" if rc == 1 else "MISSED", (nruns or [""])[0]))
        if rc == 1 and line:
            print("    " + line[0][:260])
        if rc != 1:
            if meta.get("detected") is False and rc == 0:
                print("    (recorded as not detectable by this oracle - see meta.json)")
            else:
                ok = False
        for f in os.listdir(os.path.join(core.VERIF, "replays")):
            if f.startswith(prop + "-"):
                os.remove(os.path.join(core.VERIF, "replays", f))
    return ok


def main(argv):
    ap = argparse.ArgumentParser(prog="check selftest")
    ap.add_argument("what", choices=["determinism", "sensitivity", "seeded", "all"])
    ap.add_argument("--props", default=",".join(PROPS))
    ap.add_argument("--runs", type=int, default=None)
    ap.add_argument("--only", default=None)
    a = ap.parse_args(argv)
    props = a.props.split(",")
    ok = True
    if a.what in ("determinism", "all"):
        ok = determinism(props, a.runs or 64) and ok
    if a.what in ("sensitivity", "all"):
        ok = sensitivity(props, only=(a.only.split(",") if a.only else None), runs=a.runs if a.what == "sensitivity" else None) and ok
    if a.what in ("seeded", "all"):
        ok = seeded(props, only=(a.only.split(",") if a.only else None)) and ok
    print("selftest %s" % ("passed" if ok else "FAILED"))
    return 0 if ok else 2
