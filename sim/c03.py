"""C03 - the optimiser returns a feasible, optimal point of the assembled problem.

Simulated world: the solver is a peer behind cvxpy.Problem.solve.  SimSolver intercepts every
request EAO sends (and checks it against the problem EAO was given, independent of any solver),
lets the real back-end answer, or injects what a peer can answer instead: any cvxpy status, an
exhausted budget (deterministic iteration / node limits on the real solver), an exception.
Oracle: scipy.optimize.milp directly on (c,l,u,A,b,cType,bools).  See DESIGN.md section 3.4.
"""
import copy
import json

import numpy as np
import pandas as pd
import scipy.sparse as sp

from sim import specs, canon, core, seams, refsolve

ID = "C03"
DEFAULT_SEED = {"quick": 303, "thorough": 2303}
TIERS = {"quick": {"runs": 4000, "budget_s": 100, "cap_s": 150},
         "thorough": {"runs": 250000, "budget_s": 1200, "cap_s": 240}}
STUBS = ["SimSolver: response faults status:<s> / raise / budget on the peer behind cvxpy.Problem.solve",
         "the client issuing optimize() conversations"]
ASSUMPTIONS = [
    "reference optimum / infeasibility verdict: scipy.optimize.milp (HiGHS) called directly on (c,l,u,A,b,cType,bools), mip_rel_gap=0",
    "a variable is boolean iff its (first) mapping row carries bool=True; a boolean variable takes values in {0,1} intersected with its bounds",
    "tolerances follow the peer: 1e-6 (abs+rel) feasibility / optimality for CLARABEL, HiGHS, SCIP; 1e-3 relative for the first-order solvers OSQP, SCS; 2e-4 relative optimality for HiGHS MIP (its default gap)",
    "'inaccurate' and exceptions make no claim; after an injected non-optimal response EAO may fail or raise but must not return a Results",
    "'not successful' is held against the reference only when the real peer answered 'infeasible' for that call (limits set by the simulator itself - budget faults, the MIP node guard - make no claim)",
    "robust target: judged on feasibility and value == -c.x only (what 'best' means there is C17's subject)",
    "ortools interface not exercised (package absent)",
]
REQUIRED_PROBES = ["edited_in_place_between_calls", "zero_row_class", "second_call_same_object", "split_mip_soft", "bool_with_duplicate_mapping_rows", "bool_with_bounds_not_01", "nonoptimal_on_last_partial_interval",
                   "true_infeasible_reported", "robust_with_binding_sample", "all_four_row_classes", "empty_A",
                   "soft_problem", "mip_to_lp_solver", "request_probe_infeasible_point"]
SHRINK_KEYS = []

LP_SOLVERS = [None, None, "CLARABEL", "SCIPY", "SCIPY", "SCS", "OSQP", "SCIP"]
MIP_SOLVERS = [None, None, "SCIP", "SCIPY"]
FIRST_ORDER = ("SCS", "OSQP")

# --------------------------------------------------------------------------- generation


def gen_direct(rng, infeasible=False, classes=None, plain=False):
    """Spec of an OptimProblem built directly: all row classes, duplicated mapping rows, booleans
    with arbitrary bounds.  Feasible by construction around a witness point x0 (unless asked not to be)."""
    n = rng.choice([1, 1] + list(range(2, 25)) * 2)
    mip = rng.random() < 0.4
    nb = rng.randint(1, min(n, 8)) if mip else 0
    bools = sorted(rng.sample(range(n), nb))
    l, u, x0 = [], [], []
    for i in range(n):
        if i in bools:
            lo, hi = rng.choice([(0, 1), (0, 1), (0, 1), (0, 3), (-1, 1), (1, 1), (0, 0), (0, 2.5), (-2, 0.5)])
            cand = [v for v in (0, 1) if lo <= v <= hi]
            x = float(rng.choice(cand))
        else:
            lo = round(rng.uniform(-10, 5), 2)
            hi = round(lo + rng.choice([0, rng.uniform(0.5, 12)]), 2)
            x = round(rng.uniform(lo, hi), 3) if hi > lo else lo
        l.append(float(lo)); u.append(float(hi)); x0.append(x)
    if rng.random() < 0.1:
        # badly scaled: some continuous variables live on a scale of 1e4 .. 1e7 next to booleans and unit-sized ones
        S_ = rng.choice([1e4, 1e6, 1e7])
        for i in range(n):
            if i not in bools and rng.random() < 0.5:
                l[i], u[i], x0[i] = l[i] * S_, u[i] * S_, x0[i] * S_
    if rng.random() < 0.08:
        # a narrow box far from zero (a tank that is nearly full): bounds that differ by 1e-5 relative are not equal
        for i in rng.sample([i for i in range(n) if i not in bools] or [None], 1):
            if i is not None:
                l[i] = float(rng.choice([2e4, 5e4]))
                u[i] = l[i] + round(rng.uniform(0.06, 0.19), 3)
                x0[i] = l[i] + 0.03
    c = [round(rng.uniform(-10, 10), 2) if rng.random() < 0.85 else 0.0 for _ in range(n)]
    inf_side = {}
    if rng.random() < 0.1:
        # half-infinite bounds: the side the objective pushes away from is left open (the problem stays bounded)
        for i in rng.sample([i for i in range(n) if i not in bools] or [0], 1):
            if i in bools:
                continue
            if c[i] == 0:
                c[i] = 1.5
            inf_side[i] = "u" if c[i] > 0 else "l"
    int_A = rng.random() < 0.12
    if classes is None:
        classes = rng.choice([["U", "L", "S", "N"], ["U", "L", "S", "N"], ["U"], ["L"], ["S"], ["N"], ["U", "L"], ["S", "N"], []])
    rows = []
    m = 0 if not classes else rng.randint(max(1, len(classes) if plain else 1), max(min(2 * n, 16), len(classes)))
    for r in range(m):
        t = classes[r] if (plain and r < len(classes)) else rng.choice(classes)
        k = rng.randint(1, min(n, 4))
        cols = sorted(rng.sample(range(n), k))
        vals = [round(rng.uniform(-3, 3), 2) or 1.0 for _ in cols]
        if int_A:
            vals = [float(int(v) or (1 if v > 0 else -1)) for v in vals]
        ax = sum(v * x0[j] for v, j in zip(vals, cols))
        slack = rng.choice([0.0, 0.0, round(rng.uniform(0, 5), 2)])
        if t == "U":
            b = ax + slack
        elif t == "L":
            b = ax - slack
        else:
            b = ax
            if t in ("S", "N") and sum(1 for rr in rows if rr["t"] in ("S", "N")) >= max(1, n - 2) and not plain:
                t = "U"  # keep equality rows below n so the problem does not degenerate to a point too often
        rows.append({"t": t, "cols": cols, "vals": vals, "b": round(b, 6)})
    zr = rng.random() if not plain else 1.0
    if zr < 0.12:
        # rows without any coefficient: 0*x (<=,>=,=) b.  Satisfiable ones are harmless, an unsatisfiable one makes the
        # problem infeasible; sometimes they are the only rows of their class
        t = rng.choice(["U", "L", "S", "N"])
        if rng.random() < 0.5:
            rows = [r for r in rows if r["t"] != t]
        sat = rng.random() < 0.5 and not infeasible
        for _ in range(rng.randint(1, 2)):
            if sat:
                b = {"U": 1.5, "L": -1.5, "S": 0.0, "N": 0.0}[t]
            else:
                b = {"U": -1.0, "L": 1.0, "S": 0.5, "N": -0.5}[t]
            rows.append({"t": t, "cols": [], "vals": [], "b": b})
        rng.shuffle(rows)
    if infeasible and bools and rng.random() < 0.3:
        # infeasible through a boolean flag alone: the bounds of a flagged variable contain neither 0 nor 1
        i = rng.choice(bools)
        l[i], u[i] = rng.choice([(0.5, 0.5), (2., 2.), (0.25, 0.75), (1.5, 3.), (-1., -1.)])
        x0[i] = l[i]
    elif infeasible:
        k = rng.randint(1, min(n, 3))
        cols = sorted(rng.sample(range(n), k))
        vals = [1.0] * k
        ax = sum(x0[j] for j in cols)
        t1, t2 = rng.choice([("U", "L"), ("S", "L"), ("N", "U"), ("S", "S")])
        d = rng.choice([0.5, 2.0])
        rows.append({"t": t1, "cols": cols, "vals": vals, "b": round(ax, 6)})
        rows.append({"t": t2, "cols": cols, "vals": vals, "b": round(ax + (d if t2 in ("L", "S", "N") else -d), 6)})
    # mapping with duplicated index rows
    maprows = []
    for i in range(n):
        k = rng.choice([1, 1, 1, 2, 3])
        for j in range(k):
            maprows.append({"i": i, "asset": "a%d" % (i % 3), "node": "n%d" % j, "type": rng.choice(["d", "d", "i"]),
                            "time_step": i % 5, "var_name": "v", "bool": i in bools})
    if rng.random() < 0.3:
        rng.shuffle(maprows)
    if rng.random() < 0.15:
        # variables without any mapping row (legal for optimize(): the mapping only describes)
        drop = set(rng.sample([i for i in range(n) if i not in bools] or [None], 1)) - {None}
        maprows = [r for r in maprows if r["i"] not in drop] or maprows
    with_bool_col = bool(bools) or rng.random() < 0.3
    return {"kind": "direct", "n": n, "c": c, "l": l, "u": u, "inf": {str(k_): v_ for k_, v_ in inf_side.items()}, "rows": rows, "map": maprows, "bool_col": with_bool_col,
            "bools": bools, "x0": x0, "A_format": rng.choice(["lil", "lil", "csr", "coo", "csc"]),
            "bool_nan": bool(bools) and rng.random() < 0.3, "int_c": rng.random() < 0.2, "coo_dups": (not int_A) and rng.random() < 0.12,
            "int_A": int_A}


def build_direct(s):
    import eaopack as eao
    n = s["n"]
    rows = s["rows"]
    if rows:
        A = sp.lil_matrix((len(rows), n))
        b = np.zeros(len(rows))
        ct = ""
        for r, row in enumerate(rows):
            for j, v in zip(row["cols"], row["vals"]):
                A[r, j] = v
            b[r] = row["b"]
            ct += row["t"]
    else:
        A, b, ct = None, None, None
    m = pd.DataFrame([{k: v for k, v in r.items() if k != "i"} for r in s["map"]], index=[r["i"] for r in s["map"]])
    if not s["bool_col"]:
        m = m.drop(columns=["bool"])
    elif s.get("bool_nan"):
        # as after pd.concat of asset mappings with and without a 'bool' column: True or NaN (object dtype)
        m["bool"] = m["bool"].astype(object).where(m["bool"], np.nan)
    if A is not None and s.get("A_format", "lil") != "lil":
        A = getattr(A, "to" + s["A_format"])()
    if A is not None and s.get("int_A"):
        A = A.astype(np.int64)          # an incidence-like matrix handed over with an integer dtype (b stays fractional)
    if A is not None and s.get("coo_dups"):
        # coo format with every entry split into two that have to be summed, plus explicitly stored zeros
        Ac = sp.coo_matrix(A)
        r_ = np.concatenate([Ac.row, Ac.row, np.zeros(1, dtype=Ac.row.dtype)])
        c_ = np.concatenate([Ac.col, Ac.col, np.zeros(1, dtype=Ac.col.dtype)])
        d_ = np.concatenate([Ac.data * 0.25, Ac.data * 0.75, np.zeros(1)])
        A = sp.coo_matrix((d_, (r_, c_)), shape=Ac.shape)
    if b is not None and s.get("b_form") == "series_perm" and len(b) > 1:
        b = pd.Series(b, index=list(range(len(b) - 1, -1, -1)))      # same values in the same order, labels reversed
    c = np.array(s["c"], float)
    lo_, up_ = np.array(s["l"], float), np.array(s["u"], float)
    for k_, side in (s.get("inf") or {}).items():
        if side == "u":
            up_[int(k_)] = np.inf
        else:
            lo_[int(k_)] = -np.inf
    if s.get("int_c"):
        c = np.round(c).astype(np.int64)     # whole-number costs handed over as an integer array
    return eao.optimization.OptimProblem(c=c, l=lo_, u=up_, A=A, b=b, cType=ct, mapping=m)


def build_direct_split(src):
    """SplitOptimProblem assembled by the caller from directly built interval problems."""
    import eaopack as eao
    ops = [build_direct(x) for x in src["parts"]]
    if src.get("repeat_first_as_last") and len(ops) >= 2:
        ops[-1] = ops[0]        # the caller lists one OptimProblem OBJECT twice (two periods with the same problem)
    maps = []
    off = 0
    for o in ops:
        mm = o.mapping.copy()
        mm.index = mm.index + off
        off += len(o.c)
        maps.append(mm)
    return eao.optimization.SplitOptimProblem(ops, pd.concat(maps))


def gen_plan(rng, run_index, tier, opts):
    r = rng.random()
    plan = {"cfg": {}}
    if r < 0.07:
        k = rng.randint(2, 6)
        # (EAO stitches the interval duals key by key: all intervals carry the same row classes)
        cls_ = rng.choice([["U", "L", "S", "N"], ["U"], ["L", "S"], ["U", "L"], ["S"], []])
        parts = [gen_direct(rng, infeasible=False, classes=cls_, plain=True) for _ in range(k)]
        if rng.random() < 0.4:
            for p_ in parts:
                p_["int_c"] = True     # every interval with integer-typed costs
        if rng.random() < 0.3:
            # two intervals with identical numbers, one with and one without its boolean flags (anything that recognises
            # "the same interval again" by its numbers alone will confuse them)
            src_ = next((p_ for p_ in parts if p_["bools"]), None)
            if src_ is not None:
                twin_ = copy.deepcopy(src_)
                twin_["bools"] = []
                for r_ in twin_["map"]:
                    r_["bool"] = False
                parts.insert(rng.randrange(len(parts) + 1), twin_)
        plan["source"] = {"kind": "direct_split", "parts": parts}
        mip = any(p_["bools"] for p_ in parts)
        n_solves = 14
    elif r < 0.45:
        plan["source"] = gen_direct(rng, infeasible=rng.random() < 0.15)
        mip = bool(plan["source"]["bools"])
        n_solves = 1
    elif r < 0.8:
        mipw = rng.random() < 0.35
        env = specs.Env(rng, max_T=(24 if mipw else 48))
        g = specs.gen_grid(env)
        f = env.world["grids"][g]["freq"]
        P = specs.gen_portfolio(env, grid_freq=f, mip_ok=mipw, market_p=0.9)
        p = specs.gen_prices(env, g, form="dict_nd")
        mip = any(specs.is_mip_asset(env.world, a) for a in env.world["portfolios"][P]["assets"])
        plan["source"] = {"kind": "portfolio", "world": specs.clean_world(env.world), "portfolio": P, "grid": g, "prices": p}
        if rng.random() < 0.12:
            plan["source"]["contradict"] = True
        n_solves = 1
    else:
        mipw = rng.random() < 0.25
        env = specs.Env(rng, max_T=72, freqs=["h", "h", "4h"])
        g = specs.gen_grid(env, T=(rng.choice([36, 48]) if mipw else rng.choice([36, 48, 72])), freq="h")
        P = specs.gen_portfolio(env, grid_freq="h", mip_ok=mipw, market_p=1.0)
        p = specs.gen_prices(env, g, form="dict_nd")
        mip = any(specs.is_mip_asset(env.world, a) for a in env.world["portfolios"][P]["assets"])
        plan["source"] = {"kind": "split", "world": specs.clean_world(env.world), "portfolio": P, "grid": g, "prices": p,
                          "interval": rng.choice(["d", "d", "12h", "2d", "6h"])}
        n_solves = 14
    plan["cfg"]["mip"] = mip
    if mip:
        solver = rng.choice(MIP_SOLVERS)
        if rng.random() < 0.06:
            solver = rng.choice(["CLARABEL", "OSQP"])  # a MIP sent to an LP-only solver: real SolverError
    else:
        solver = rng.choice(LP_SOLVERS)
    plan["solver"] = solver
    tr = rng.random()
    plan["target"] = "value"
    if rng.random() < 0.25:
        plan["target_spelling"] = rng.choice(["upper", "cap"])
    if plan["source"]["kind"] not in ("split", "direct_split") and tr < 0.15:
        plan["target"] = "robust"
        plan["n_samples"] = rng.choice([1, 2, 2, 3, 4])
        plan["sample_seed"] = rng.randrange(10 ** 6)
    if mip and rng.random() < 0.15:
        plan["soft"] = True
    # earlier optimize() calls on the same problem object (relaxed / other solver): must not change what the next one does
    if rng.random() < 0.25:
        pre = []
        for _ in range(rng.choice([1, 1, 2])):
            pc = {"soft": bool(mip and rng.random() < 0.6),
                  "solver": rng.choice(MIP_SOLVERS if mip else LP_SOLVERS), "target": "value", "faults": []}
            if rng.random() < 0.45:
                pc["edit_after"] = {"what": rng.choice(["b", "b_tight", "b_tight", "c", "u"]), "idx": rng.randrange(64),
                                    "frac": rng.choice([0.1, 0.5, 1.0])}
            pre.append(pc)
        plan["pre_calls"] = pre
    # response faults: one entry per solve call
    faults = []
    for k in range(n_solves):
        fr = rng.random()
        if fr < 0.6:
            faults.append(None)
        elif fr < 0.72:
            faults.append("budget")
        elif fr < 0.92:
            faults.append("status:" + rng.choice(seams.STATUSES))
        else:
            faults.append("raise")
    if n_solves > 1:
        # at most one fault per split conversation, biased to first / last interval
        pos = rng.choice([0, -1, -1, rng.randrange(n_solves)])
        one = rng.choice([f for f in faults if f] or [None])
        faults = [None] * n_solves
        if one and rng.random() < 0.5:
            faults[pos] = one
            plan["fault_pos"] = pos
    plan["faults"] = faults
    # (drawn last, so that plans of earlier versions of this generator keep their other choices for the same seed)
    srcs_ = [plan["source"]] if plan["source"]["kind"] == "direct" else (plan["source"].get("parts", []) if plan["source"]["kind"] == "direct_split" else [])
    if srcs_ and rng.random() < 0.25:
        # mapping rows of one variable that disagree about the flag: the first row of a variable is the one that counts
        # (optimization.py reads the flag after index de-duplication, keep='first')
        for src_ in srcs_:
            seen_ = set()
            for r_ in src_["map"]:
                if r_["i"] in seen_ and rng.random() < 0.6:
                    r_["bool"] = not r_["bool"]
                    src_["bool_col"] = True
                    plan["flag_disagreement"] = True
                seen_.add(r_["i"])
    if rng.random() < 0.3:
        # the switch spelled as another true / false value: numpy bool from a comparison, 0 / 1
        plan["soft_spelling"] = rng.choice(["np", "int"])
    if plan["source"]["kind"] == "direct_split" and rng.random() < 0.15:
        pp_ = plan["source"]["parts"]
        if len(pp_) >= 2 and bool(pp_[0]["bools"]) == bool(pp_[-1]["bools"]):
            plan["source"]["repeat_first_as_last"] = True
    # (round 13, drawn last)
    if rng.random() < 0.12:
        plan["positional"] = True        # optimize(target, samples, interface, solver, make_soft_problem) by position
    if plan.get("pre_calls") and rng.random() < 0.35:
        # an earlier, deliberately rough call: solver options given for THAT call only (tolerances of 0.1)
        plan["pre_calls"][0]["solver_params"] = True
    if srcs_ and rng.random() < 0.08:
        for src_ in srcs_:
            src_["b_form"] = "series_perm"   # right-hand side handed over as a pandas Series whose labels are not 0..m-1 in order
    return plan


# --------------------------------------------------------------------------- numpy evaluation of a problem


def dense_parts(op):
    n = len(op.c)
    if op.A is None or op.A.shape[0] == 0:
        A = sp.csr_matrix((0, n))
        b = np.zeros(0)
        ct = ""
    else:
        A = sp.csr_matrix(op.A)
        b = np.asarray(op.b, float)
        ct = str(op.cType)
    return A, b, ct


def residuals(op, z, samples=None, t=None):
    """Residual per bound and row of (l,u,A,b,cType) at z (0 = satisfied), grouped by class."""
    A, b, ct = dense_parts(op)
    l, u = np.asarray(op.l, float), np.asarray(op.u, float)
    out = {"bu": np.maximum(z - u, 0), "bl": np.maximum(l - z, 0)}
    Az = A @ z if A.shape[0] else np.zeros(0)
    ct = np.array(list(ct)) if len(ct) else np.array([], dtype=str)
    for k in "ULSN":
        I = ct == k
        if not I.any():
            out[k] = np.zeros(0)
        elif k == "U":
            out[k] = np.maximum(Az[I] - b[I], 0)
        elif k == "L":
            out[k] = np.maximum(b[I] - Az[I], 0)
        else:
            out[k] = np.abs(Az[I] - b[I])
    if samples is not None:
        out["R"] = np.array([max(t - float(-s @ z), 0) for s in samples])
    return out


def expected_bools(op, soft):
    m = op.mapping
    if soft or m is None or "bool" not in m.columns:
        return []
    mm = m[~m.index.duplicated(keep="first")]
    return sorted(int(i) for i in mm.index[mm["bool"].fillna(False).astype(bool)])


def reference(op, bools):
    """('optimal'|'infeasible'|'unknown', value, witness) - see sim/refsolve.py"""
    return refsolve.solve(op, bools)


# --------------------------------------------------------------------------- executor


class Conversation:
    def __init__(self, plan):
        self.plan = plan
        self.violation = None
        self.events = []
        self.faults = {}
        self.probes = {k: 0 for k in REQUIRED_PROBES}
        self.stats = {"conversations": 0, "solve_calls": 0, "requests_checked": 0, "request_probe_points": 0,
                      "results_checked": 0, "failures_checked": 0, "no_claim": 0, "setup_failed": 0, "ref_solves": 0,
                      "split_results_checked": 0, "inconclusive": 0}
        self.pairs = set()
        self.cur_ops = []       # OptimProblems in the order their solve calls will arrive
        self.samples = None
        self.soft = bool(plan.get("soft"))
        self.harness_error = None
        self.requests = {}

    def fault(self, k):
        self.faults[k] = self.faults.get(k, 0) + 1

    def viol(self, clause, detail, field=""):
        v = {"clause": clause, "detail": detail, "field": field, "signature": "%s|%s|%s" % (ID, clause, field)}
        if clause.startswith("request-") and len(getattr(self, "cur_ops", [])) > 1 and not getattr(self, "promoting", False):
            # split problem: a request can only be held against "its" interval if every interval was solved exactly once,
            # in order - known only when the conversation is over
            if getattr(self, "pending_request_violation", None) is None:
                self.pending_request_violation = v
            return
        if self.violation is None:
            self.violation = v

    # ---- tolerances
    def tols(self):
        s = (getattr(self, "cur_solver", self.plan.get("solver")) or "").upper()
        if s in FIRST_ORDER:
            return 2e-3, 2e-3
        return 1e-6, 1e-6

    # ---- building the problem(s)
    def build(self):
        src = self.plan["source"]
        if src["kind"] == "direct":
            return build_direct(src), None
        if src["kind"] == "direct_split":
            return build_direct_split(src), None
        B = specs.Builder(src["world"])
        P = B.portfolio(src["portfolio"])
        g = B.grid(src["grid"])
        pr = B.prices(src["prices"])
        if src["kind"] == "split":
            return P.setup_split_optim_problem(pr, g, interval_size=src["interval"]), (P, g)
        op = P.setup_optim_problem(pr, g)
        if src.get("contradict") and op.A is not None and op.A.shape[0] > 0:
            # (e) truly infeasible variant: demand that the first row's left-hand side take two different values
            A = sp.csr_matrix(op.A)
            row = A[0]
            op.A = sp.vstack((A, row, row))
            op.b = np.hstack((op.b, [op.b[0] + 5.0, op.b[0] + 7.0]))
            op.cType = op.cType + "SS"
        return op, (P, g)

    # ---- request fidelity, called from inside SimSolver
    def on_request(self, prob, kwargs, rec):
        try:
            self._on_request(prob, kwargs, rec)
        except Exception as e:
            import traceback
            self.harness_error = "on_request: %s: %s\n%s" % (type(e).__name__, e, traceback.format_exc()[-1500:])

    def _on_request(self, prob, kwargs, rec):
        k = rec["call"]
        if k >= len(self.cur_ops) and len(self.cur_ops) != 1:
            return
        # (a problem that is not split: every solve call of one optimize() - a retry, a relaxation first - is a request for that problem)
        op = self.cur_ops[k] if k < len(self.cur_ops) else self.cur_ops[0]
        n = len(op.c)
        if getattr(self, "cur_target", "value") == "robust":
            # the auxiliary 'minimum DCF' variable is the one the objective consists of; x is the other one
            aux = prob.objective.variables()
            xs = [v for v in prob.variables() if not any(v is q for q in aux)]
        else:
            xs = list(prob.variables())
        xs = [v for v in xs if v.size == n]
        others = [v for v in prob.variables() if not any(v is q for q in xs)]
        if len(xs) != 1 and len(self.cur_ops) > 1:
            # split problem whose solve calls cannot be lined up with its intervals (an implementation may legitimately
            # skip or merge solves): the requests of this conversation are not judged, the stitched result still is
            self.stats["requests_not_alignable"] = self.stats.get("requests_not_alignable", 0) + 1
            self.misaligned = True
            return
        if getattr(self, "misaligned", False):
            return
        if len(xs) != 1:
            self.viol("request-shape", "expected one variable vector of length %d in the request, found %s"
                      % (n, [v.shape for v in prob.variables()]), "variables")
            return
        x = xs[0]
        self.requests[k] = (prob, x, others)
        self.stats["requests_checked"] += 1
        # booleans
        want = expected_bools(op, self.soft)
        got = []
        if x.attributes.get("boolean"):
            if x.attributes["boolean"] is True:
                got = list(range(n))
            else:
                got = sorted(int(i) for i in np.asarray(x.boolean_idx[0] if isinstance(x.boolean_idx, tuple) else [t[0] for t in x.boolean_idx]).ravel())
        # a flagged variable whose bounds pin it to 0 or to 1 may be sent without the flag (same feasible set)
        l_, u_ = np.asarray(op.l, float), np.asarray(op.u, float)
        redundant = {i for i in want if l_[i] == u_[i] and l_[i] in (0.0, 1.0)}
        if got != want and set(got) - set(want) == set() and set(want) - set(got) <= redundant:
            self.stats["request_omits_pinned_booleans"] = self.stats.get("request_omits_pinned_booleans", 0) + 1
        elif got != want and set(got) < set(want):
            # a relaxation of the problem: legitimate as a request (solve the relaxation first, keep its point if it
            # happens to satisfy the flags); what is returned in the end is judged against the flags as always
            self.stats["relaxed_requests"] = self.stats.get("relaxed_requests", 0) + 1
        elif got != want:
            self.viol("request-booleans", "boolean variables in the request %s, flagged in the mapping %s" % (got[:12], want[:12]), "bools")
            return
        rec["bools"] = want
        # probe points
        l, u = np.asarray(op.l, float).copy(), np.asarray(op.u, float).copy()
        fin_ = np.where(np.isfinite(l), l, np.where(np.isfinite(u), u, 0.0))
        l = np.where(np.isfinite(l), l, fin_ - 10.0 - np.abs(fin_))      # finite stand-ins for open sides (probe points only)
        u = np.where(np.isfinite(u), u, fin_ + 10.0 + np.abs(fin_))
        pts = [l.copy(), u.copy(), (l + u) / 2]
        for j in range(5):
            frac = np.array([((i * 7919 + (j + 1) * 104729 + k * 31) % 997) / 997.0 for i in range(n)])
            z = l + (u - l) * frac
            if j >= 3:
                z = z + (frac - 0.5) * (1 + np.abs(u - l))  # also outside the box
            pts.append(z)
        rk = getattr(self, "ref_x", {}).get(k)
        if rk is not None:
            pts.append(np.asarray(rk, float))
        # boolean variables only ever take the values 0 and 1: probe them there (a request that tightens the bounds of a
        # boolean variable to [0,1] describes the same feasible set)
        if want:
            for j_, z in enumerate(pts):
                if rk is not None and z is pts[-1]:
                    continue
                for i_ in want:
                    z[i_] = float((i_ + j_) % 2)
        samples = self.samples if getattr(self, "cur_target", "value") == "robust" else None
        objs = []
        for z in pts:
            self.stats["request_probe_points"] += 1
            x.save_value(z)
            tval = None
            if samples is not None and others:
                dcfs_ = sorted(float(-s @ z) for s in samples)
                # the auxiliary minimum sits between the sample values: about half of the sample rows are violated at the
                # probe point, so a request that leaves out (or changes) a sample row is seen
                tval = 0.5 * (dcfs_[0] + dcfs_[-1]) + 0.125 if len(dcfs_) > 1 else dcfs_[0] - 0.25
                others[0].save_value(np.array([tval]))
            try:
                cv = np.concatenate([np.atleast_1d(np.asarray(c.violation(), float)).ravel() for c in prob.constraints]) \
                    if prob.constraints else np.zeros(0)
                obj = float(prob.objective.value)
            except Exception as e:
                self.viol("request-evaluation", "cannot evaluate the request at a probe point: %s" % e, "eval")
                return
            res = residuals(op, z, samples, tval)
            nv = np.concatenate([res[kk] for kk in ("bu", "bl", "U", "L", "S", "N")] + ([res["R"]] if "R" in res else []))
            if nv.max(initial=0) > 1e-9:
                self.probes["request_probe_infeasible_point"] += 1
            a, b_ = np.sort(cv), np.sort(nv)
            # only violated constraints are compared: a request that leaves out (or repeats) rows which are satisfied at
            # the probe point anyway describes the same feasible set there
            a, b_ = a[a > 1e-12], b_[b_ > 1e-12]
            scale = 1 + float(np.abs(z).max(initial=0)) * (1 + (abs(sp.csr_matrix(op.A)).sum(axis=1).max() if op.A is not None and op.A.shape[0] else 0))
            # compared well below the solvers' own tolerance (1e-6) but above rounding noise: a change that moves a bound
            # or right-hand side by less than that does not violate "within solver tolerance"
            if a.shape != b_.shape or not np.allclose(a, b_, rtol=2e-7, atol=2e-7 * scale):
                # which class disagrees?  compare totals per class against the request's totals
                self.viol("request-constraints",
                          "constraint residuals of the request differ from those of (l,u,A,b,cType) at a probe point: "
                          "request has %d violated scalar constraints with total violation %.6g, the problem has %d with %.6g; per class %s"
                          % (a.size, a.sum(), b_.size, b_.sum(), {kk: round(float(v.sum()), 6) for kk, v in res.items()}),
                          "residuals")
                return
            want_obj = tval if samples is not None else float(-np.asarray(op.c, float) @ z)
            objs.append((obj, want_obj))
        # The objective of the request must rank points as -c.z does: obj = alpha * (-c.z) + beta with alpha > 0 at all
        # probe points (a positive rescaling or a constant shift - e.g. for conditioning - describes the same optimum;
        # what EAO reports as value is checked on the result).  The direction of optimisation is part of this.
        if objs:
            o = np.array([a_ for a_, _ in objs], float)
            wv = np.array([b_ for _, b_ in objs], float)
            sense = 1.0 if type(prob.objective).__name__ == "Maximize" else -1.0
            o = sense * o
            spread = float(wv.max() - wv.min())
            if spread > 1e-9 * (1 + float(np.abs(wv).max())):
                A_ = np.vstack([wv, np.ones_like(wv)]).T
                (alpha, beta), *_ = np.linalg.lstsq(A_, o, rcond=None)
                resid = float(np.abs(A_ @ np.array([alpha, beta]) - o).max())
                ok = alpha > 0 and resid <= 1e-6 * (1 + float(np.abs(o).max()))
                if not ok:
                    self.viol("request-objective", "the objective of the request does not rank the probe points as -c.z does: best affine fit "
                              "obj = %.6g * (-c.z) + %.6g leaves residual %.3g (sense %s)" % (alpha, beta, resid, type(prob.objective).__name__), "objective")
                    return
                if abs(alpha - 1) > 1e-6 or abs(beta) > 1e-6 * (1 + float(np.abs(wv).max())):
                    self.stats["request_objective_rescaled"] = self.stats.get("request_objective_rescaled", 0) + 1
            elif float(np.abs(o - o[0]).max()) > 1e-6 * (1 + float(np.abs(o).max())):
                self.viol("request-objective", "-c.z is constant over the probe points but the request's objective is not", "objective")
                return
        for v in prob.variables():
            v.save_value(None)

    def peer_answer_violates_request(self, rec, x, tol):
        """True if the point the peer returned violates the very request EAO sent by more than tol: then the peer,
        not EAO's translation, is responsible for an infeasible answer (cvxpy/SCIP e.g. accept '0*x == 0.5')."""
        k = rec.get("call") if rec else None
        if k not in self.requests or rec.get("eao_options"):
            return False     # (options EAO passed itself - looser tolerances, limits - are not the peer's fault)
        prob, xv, oth = self.requests[k]
        # the peer is only responsible for what it answered itself: if EAO returns something else than the peer's
        # own values (post-processing), the returned vector is EAO's and is judged without excuse
        px = (rec.get("peer_values") or {}).get(id(xv))
        if px is None or px.shape != np.asarray(x).shape or \
                not np.allclose(px, np.asarray(x, float), rtol=1e-9, atol=1e-9 * (1 + float(np.abs(px).max(initial=0)))):
            if px is not None:
                self.stats["returned_x_differs_from_peer_answer"] = self.stats.get("returned_x_differs_from_peer_answer", 0) + 1
            return False
        try:
            xv.save_value(px)
            self.set_aux(oth, px)
            cv = max([float(np.max(np.atleast_1d(c.violation()), initial=0)) for c in prob.constraints] or [0.0])
        except Exception:
            return False
        return cv > tol

    def set_aux(self, others, z):
        """robust target: give the auxiliary 'minimum DCF' variable a value that satisfies its sample rows at z"""
        if others and self.samples is not None:
            others[0].save_value(np.array([float(min(-s @ np.asarray(z, float) for s in self.samples)) - 1.0]))

    # ---- judging one answer
    def check_result(self, op, res, rec, fault, tag, bools):
        ftol, otol = self.tols()
        injected_bad = fault is not None and (fault == "raise" or fault.startswith("status:"))
        status = rec.get("status") if rec else None
        if isinstance(res, str) or res is None:
            self.events.append((tag, "fail:%s" % res))
            eao_opts = bool(rec and rec.get("eao_options"))
            peer_raised = status == "raised"      # real or injected exception of the peer: it claimed nothing at all
            if rec is None and isinstance(res, str):
                # a failure reported without asking any solver is EAO's own claim that no feasible point exists
                self.stats["failures_checked"] += 1
                st, val, _w = reference(op, bools)
                self.stats["ref_solves"] += 1
                if st == "optimal":
                    self.viol("failure-reported-but-feasible", "optimize() reports '%s' without having asked a solver, but the problem has a feasible point "
                              "(verified witness, value %r)" % (res, val), "no-solve")
                elif st == "infeasible":
                    self.probes["true_infeasible_reported"] += 1
                return None
            if res == "not successful" and peer_raised and fault in (None, "raise"):
                # an exception of the peer turned into "no solution exists"
                self.stats["failures_checked"] += 1
                st, val, _w = reference(op, bools)
                self.stats["ref_solves"] += 1
                if st == "optimal":
                    self.viol("failure-reported-but-feasible", "the peer raised %s (it made no claim), optimize() reports '%s', but the problem has a feasible point "
                              "(verified witness, value %r)" % (rec.get("raised", "an exception"), res, val), "peer-raised")
                return None
            if fault is None and res == "not successful" and status == "optimal":
                # the peer delivered a solution and EAO turned it into "no solution exists": EAO's own claim, whatever the back-end
                self.stats["failures_checked"] += 1
                st, val, _w = reference(op, bools)
                self.stats["ref_solves"] += 1
                if st == "optimal":
                    self.viol("failure-reported-but-feasible", "the peer answered 'optimal', optimize() reports '%s', but the problem has a feasible point "
                              "(verified witness, value %r)" % (res, val), "peer-optimal")
                return None
            if fault is None and res == "not successful" and (status in ("infeasible",) or (eao_opts and status not in (None, "raised"))):
                self.stats["failures_checked"] += 1
                st, val, _w = reference(op, bools)
                self.stats["ref_solves"] += 1
                if st == "optimal":
                    # Whose fault?  A witness that is feasible in the very request EAO sent convicts the peer
                    # (HiGHS' presolve does call feasible MIPs infeasible), not EAO.
                    k = rec.get("call") if rec else None
                    cv = None
                    if k in self.requests:
                        prob, xv, oth = self.requests[k]
                        try:
                            xv.save_value(np.asarray(_w, float))
                            self.set_aux(oth, _w)
                            cv = max([float(np.max(np.atleast_1d(c.violation()), initial=0)) for c in prob.constraints] or [0.0])
                        except Exception:
                            cv = None
                    if (getattr(self, "cur_solver", None) or "").upper() in FIRST_ORDER and not eao_opts:
                        self.stats["inconclusive"] += 1
                    elif cv is not None and cv <= 1e-6 * (1 + float(np.abs(_w).max(initial=0))) and not eao_opts:
                        self.stats["peer_false_infeasible"] = self.stats.get("peer_false_infeasible", 0) + 1
                        self.events.append((tag, "peer-false-infeasible"))
                    else:
                        self.viol("failure-reported-but-feasible", "optimize() reports '%s' (peer status %s) but the problem has a feasible point (verified witness, value %r) "
                                  "which is %s (violation there %r)" % (res, status, val, "feasible in the request too - but EAO itself passed solver options %s" % rec.get("eao_options") if eao_opts else "not feasible in the request EAO sent", cv), "not-successful")
                elif st == "infeasible":
                    self.probes["true_infeasible_reported"] += 1
            else:
                self.stats["no_claim"] += 1
            return None
        # a Results object
        if injected_bad:
            self.viol("success-after-nonoptimal-response", "peer answered %s but optimize() returned a Results" % fault, fault.split(":")[0])
            return None
        if status is not None and status != "optimal":
            self.viol("success-after-nonoptimal-response", "peer status %s but optimize() returned a Results" % status, "status")
            return None
        x = None if res.x is None else np.asarray(res.x, float)
        n = len(op.c)
        if x is None or x.shape != (n,) or np.isnan(x).any():
            self.viol("result-shape", "returned x has shape %s, problem has %d variables" % (None if x is None else x.shape, n), "x")
            return None
        self.stats["results_checked"] += 1
        r = residuals(op, x)
        A, b, ct = dense_parts(op)
        absA = abs(A)
        rowscale = 1 + np.abs(b) + (absA @ np.abs(x) if A.shape[0] else np.zeros(0))
        ctarr = np.array(list(ct)) if len(ct) else np.array([], dtype=str)
        # first-order solvers (OSQP, SCS) stop on residuals relative to the scale of the whole problem
        # interior-point / simplex solvers: residual tolerances relative to the norms of x and b (1e-7 relative, on top of 1e-6)
        gnorm = 1 + float(np.abs(x).max(initial=0)) + float(np.abs(b).max(initial=0))
        cs_ = (getattr(self, "cur_solver", None) or ("SCIP" if bools and not self.soft else "CLARABEL")).upper()
        if ftol > 1e-5:
            gscale = gnorm               # first-order methods
        elif cs_ in ("SCIP", "SCIPY"):
            gscale = 0.0                 # simplex / branch and bound: tolerances are per bound and per row
        else:
            gscale = 0.1 * gnorm         # interior point
        rowscale = np.maximum(rowscale, gscale)
        for kk, name in (("bu", "upper bound"), ("bl", "lower bound")):
            bound = np.asarray(op.u if kk == "bu" else op.l, float)
            bad = r[kk] > ftol * np.maximum(1 + np.abs(bound), gscale)
            if bad.any():
                i = int(np.argmax(r[kk] - ftol * np.maximum(1 + np.abs(bound), gscale)))
                if self.peer_answer_violates_request(rec, x, 0.5 * r[kk][i]):
                    self.stats["peer_infeasible_answer"] = self.stats.get("peer_infeasible_answer", 0) + 1
                    return None
                self.viol("result-violates-bound", "x[%d]=%r violates its %s %r by %.3g" % (i, x[i], name, bound[i], r[kk][i]), kk)
                return None
        for kk in "ULSN":
            I = ctarr == kk
            if I.any():
                bad = r[kk] > ftol * rowscale[I]
                if bad.any():
                    j = int(np.argmax(r[kk] / rowscale[I]))
                    if self.peer_answer_violates_request(rec, x, 0.5 * r[kk][j]):
                        self.stats["peer_infeasible_answer"] = self.stats.get("peer_infeasible_answer", 0) + 1
                        return None
                    self.viol("result-violates-row", "a row of class %s is violated by %.3g (scale %.3g)" % (kk, r[kk][j], rowscale[I][j]), kk)
                    return None
        if not self.soft:
            for i in bools:
                if min(abs(x[i]), abs(x[i] - 1)) > 1e-5:
                    self.viol("result-boolean-not-01", "boolean variable %d has value %r" % (i, x[i]), "bool")
                    return None
        cx = float(-np.asarray(op.c, float) @ x)
        vscale = 1 + abs(cx) + float(np.abs(op.c) @ np.abs(x))
        if abs(float(res.value) - cx) > max(otol, 1e-7) * vscale:
            self.viol("value-not-minus-cx", "reported value %r, -c.x = %r" % (float(res.value), cx), "value")
            return None
        if getattr(self, "cur_target", "value") == "robust":
            return x
        st, ref, rx = reference(op, [] if self.soft else bools)
        self.stats["ref_solves"] += 1
        # x has just been verified feasible in numpy and value == -c.x: the only thing left is optimality, and a
        # verified feasible witness with a better value is a certificate that x is not optimal
        if st != "optimal" or ref is None:
            self.stats["inconclusive"] += 1
            return x
        mipgap = 3e-4 if (bools and not self.soft) else 0.0
        tol = (otol + mipgap) * (1 + abs(ref) + float(np.abs(op.c) @ np.abs(x)) * (1 if otol > 1e-5 else 0))
        if float(res.value) < ref - tol:
            # Whose fault?  Put the witness into the very request EAO sent: if it is feasible and better *there*, the
            # peer answered 'optimal' with a sub-optimal point (solver defect: counted, not charged to EAO);
            # otherwise EAO's translation lost or distorted something.
            k = rec.get("call") if rec else None
            if k in self.requests and not (rec and rec.get("eao_options")):
                prob, xv, oth = self.requests[k]
                try:
                    xv.save_value(np.asarray(rx, float))
                    self.set_aux(oth, rx)
                    cv = max([float(np.max(np.atleast_1d(c.violation()), initial=0)) for c in prob.constraints] or [0.0])
                    ov = float(prob.objective.value)
                except Exception:
                    cv, ov = None, None
                if cv is not None and cv <= 1e-6 * (1 + float(np.abs(rx).max(initial=0))) and ov is not None and ov > float(res.value) + tol / 2:
                    self.stats["peer_suboptimal"] = self.stats.get("peer_suboptimal", 0) + 1
                    self.events.append((tag, "peer-suboptimal"))
                    return x
            self.viol("result-not-optimal", "reported value %r, but a verified feasible point has value %r (solver %s)" % (float(res.value), ref, getattr(self, "cur_solver", None)), "suboptimal")
            return None
        return x

    def note_structure(self, op, bools):
        A, b, ct = dense_parts(op)
        if set(ct) >= set("ULSN"):
            self.probes["all_four_row_classes"] += 1
        if op.A is None:
            self.probes["empty_A"] += 1
        if A.shape[0]:
            nz = np.diff(A.indptr)
            cta = np.array(list(ct))
            if any((nz[cta == k] == 0).all() for k in set(ct)):
                self.probes["zero_row_class"] += 1
        m = op.mapping
        if bools:
            dup = m.index[m.index.duplicated(keep=False)].unique()
            if any(i in set(dup) for i in bools):
                self.probes["bool_with_duplicate_mapping_rows"] += 1
            l, u = np.asarray(op.l), np.asarray(op.u)
            if any(not (l[i] == 0 and u[i] == 1) for i in bools):
                self.probes["bool_with_bounds_not_01"] += 1
        return "".join(sorted(set(ct))) or "none"

    def run(self):
        import eaopack as eao
        plan = self.plan
        self.stats["conversations"] += 1
        outcome = "skipped"
        with core.quiet():
            try:
                op, ctx = self.build()
            except Exception as e:
                self.stats["setup_failed"] += 1
                self.events.append(("build", "raise:%s@%s" % canon.exc_sig(e)))
                return self.result("setup_failed")
            split = isinstance(op, eao.optimization.SplitOptimProblem)
            ops = list(op.ops) if split else [op]
            if any(len(o.c) == 0 for o in ops) or any(len(o.c) > 600 for o in ops):
                self.events.append(("build", "skipped: empty or too large"))
                return self.result("skipped")
            # every call of the conversation is judged against the problem as it was handed over - optimize() must
            # neither need nor cause a change of the problem object
            ref_ops = copy.deepcopy(ops)
            ref_joint_len = len(op.c)
            calls = [dict(c, pre=True) for c in plan.get("pre_calls", [])]
            calls.append({"soft": bool(plan.get("soft")), "solver": plan.get("solver"), "target": plan.get("target", "value"),
                          "faults": plan["faults"], "pre": False})
            for ci, call in enumerate(calls):
                outcome = self.one_call(op, ref_ops, ref_joint_len, split, call, ci)
                if self.violation is not None:
                    break
                ed = call.get("edit_after")
                if ed and not split:
                    # the caller edits the problem IN PLACE between two calls (tighten a right-hand side, move a bound,
                    # change a cost): the next call must solve the problem as it is now
                    self.apply_edit(op, ed)
                    self.apply_edit(ref_ops[0], ed)
                    self.probes["edited_in_place_between_calls"] = self.probes.get("edited_in_place_between_calls", 0) + 1
        return self.result(outcome)

    @staticmethod
    def apply_edit(o, ed):
        k, f = ed["idx"], ed["frac"]
        if ed["what"] == "b" and o.b is not None and len(o.b):
            i = k % len(o.b)
            t = str(o.cType)[i]
            step = (1.0 + abs(o.b[i])) * f
            o.b[i] = o.b[i] + (step if t in ("U",) else -step if t == "L" else 0.0)   # loosen U / L rows, keep equalities
        elif ed["what"] == "b_tight" and o.b is not None and len(o.b):
            i = k % len(o.b)
            t = str(o.cType)[i]
            step = (1.0 + abs(o.b[i])) * f
            o.b[i] = o.b[i] - (step if t == "U" else -step if t == "L" else 0.0)
        elif ed["what"] == "c":
            i = k % len(o.c)
            if np.asarray(o.c).dtype.kind == "f":
                o.c[i] = -o.c[i] * (1 + f) - 0.5
        elif ed["what"] == "u":
            i = k % len(o.u)
            o.u[i] = o.u[i] + (1.0 + abs(o.u[i])) * f

    def one_call(self, op, ops, joint_len, split, call, ci):
        plan = self.plan
        self.soft = bool(call.get("soft"))
        self.cur_ops = ops
        self.requests = {}
        self.samples = None
        self.misaligned = False
        self.pending_request_violation = None
        kw = {}
        if call.get("solver"):
            kw["solver"] = call["solver"]
        self.caller_options = False
        if call.get("solver_params"):
            eff_ = (call.get("solver") or "").upper()
            loose = {"OSQP": {"eps_abs": 1e-1, "eps_rel": 1e-1}, "SCS": {"eps_abs": 1e-1, "eps_rel": 1e-1},
                     "CLARABEL": {"tol_gap_abs": 1e-1, "tol_gap_rel": 1e-1, "tol_feas": 1e-1}}.get(eff_)
            if loose:
                kw["solver_params"] = dict(loose)     # (cvxpy interface: ignored by the pinned code, which documents it for ortools)
                self.caller_options = True
                self.probes["caller_solver_options"] = self.probes.get("caller_solver_options", 0) + 1
        sp_ = plan.get("soft_spelling")
        if self.soft:
            kw["make_soft_problem"] = {"np": np.bool_(True), "int": 1}.get(sp_, True)
            self.probes["soft_problem"] += 1
        elif sp_:
            kw["make_soft_problem"] = {"np": np.bool_(False), "int": 0}[sp_]
        target = call.get("target", "value")
        if target == "value" and plan.get("target_spelling"):
            kw["target"] = {"upper": "VALUE", "cap": "Value"}.get(plan["target_spelling"], "value")
        if target == "robust":
            kw["target"] = {"upper": "ROBUST", "cap": "Robust"}.get(plan.get("target_spelling"), "robust")   # target.lower() is what the code promises
            rs = np.random.RandomState(plan["sample_seed"])  # seeded from the plan, not from a global source
            c = np.asarray(ops[0].c, float)
            self.samples = [c * (1 + 0.3 * rs.randn(len(c))) + 0.5 * rs.randn(len(c)) for _ in range(plan["n_samples"])]
            kw["samples"] = self.samples
        self.cur_target = target
        self.cur_solver = call.get("solver")
        if ci > 0:
            self.probes["second_call_same_object"] += 1
        if split and self.soft and plan["cfg"].get("mip"):
            self.probes["split_mip_soft"] += 1
        bools_all = [expected_bools(o, self.soft) for o in ops]
        rowsig = self.note_structure(ops[0], expected_bools(ops[0], False))
        if plan["cfg"].get("mip") and not self.soft and (call.get("solver") or "").upper() in ("CLARABEL", "OSQP", "SCS"):
            self.probes["mip_to_lp_solver"] += 1
        cf = call.get("faults") or []
        faults = list(cf)[:len(ops)] if not split else [None] * len(ops)
        if split and not call.get("pre") and plan.get("fault_pos") is not None:
            pos = plan["fault_pos"] if plan["fault_pos"] >= 0 else len(ops) - 1
            pos = min(pos, len(ops) - 1)
            f = [x for x in cf if x]
            if f:
                faults[pos] = f[0]
                if pos == len(ops) - 1 and len(ops[-1].c) < len(ops[0].c):
                    self.probes["nonoptimal_on_last_partial_interval"] += 1
        # reference optimum as one of the probe points of the request check (computed before the call)
        self.ref_x = {}
        if not split and target != "robust" and len(ops[0].c) <= 300:
            st, _, rx = reference(ops[0], bools_all[0])
            self.stats["ref_solves"] += 1
            if st == "optimal":
                self.ref_x[0] = rx
        with seams.SimSolver(faults, on_request=self.on_request) as ss:
            try:
                if plan.get("positional") and set(kw) <= {"target", "samples", "solver", "make_soft_problem"}:
                    res = op.optimize(kw.get("target", "value"), kw.get("samples"), "cvxpy", kw.get("solver"), kw.get("make_soft_problem", False))
                    self.probes["positional_call"] = self.probes.get("positional_call", 0) + 1
                else:
                    res = op.optimize(**kw)
                exc = None
            except Exception as e:
                res, exc = None, e
        # results handed out by earlier calls of this conversation stay what they were
        for (r_old, x_old, v_old, c_old) in getattr(self, "kept_results", []):
            try:
                same_ = (np.asarray(r_old.x, float).shape == x_old.shape and np.array_equal(np.asarray(r_old.x, float), x_old, equal_nan=True)
                         and float(r_old.value) == v_old)
            except Exception:
                same_ = False
            if not same_ and self.violation is None:
                self.viol("earlier-result-changed", "the Results returned by call %d of this conversation changed while call %d ran (x or value differ from "
                          "what was returned)" % (c_old, ci), "results-object")
        if exc is None and res is not None and not isinstance(res, str) and getattr(res, "x", None) is not None:
            if not hasattr(self, "kept_results"):
                self.kept_results = []
            try:
                self.kept_results.append((res, np.array(res.x, dtype=float).copy(), float(res.value), ci))
            except Exception:
                pass
        self.stats["solve_calls"] += len(ss.log)
        pend = getattr(self, "pending_request_violation", None)
        if pend is not None:
            if split and len(ss.log) == len(ops) and not self.misaligned and self.violation is None:
                self.violation = pend
            else:
                self.stats["requests_not_alignable"] = self.stats.get("requests_not_alignable", 0) + 1
                self.misaligned = True
            self.pending_request_violation = None
        if split and len(ss.log) != len(ops) and exc is None:
            self.misaligned = True
        for k_, v_ in ss.fired.items():
            self.fault(k_.split(":")[0] if not k_.startswith("status:") else k_)
        outcome = "raise" if exc is not None else ("fail" if isinstance(res, str) else "results")
        tagp = "call%d" % ci
        if self.violation is None and self.caller_options and any(r_.get("eao_options") for r_ in ss.log):
            # the caller asked for a rough solve and the options reached the peer: the quality of THIS answer is the caller's business
            self.events.append((tagp, "caller-limited"))
            self.stats["no_claim"] += 1
        elif self.violation is None:
            if exc is not None:
                self.events.append((tagp, "raise:%s" % type(exc).__name__))
                self.stats["no_claim"] += 1
            elif not split:
                # the answer EAO returns stems from its last solve call (an implementation may solve a relaxation first, or
                # retry); a planned fault that no call consumed was never injected
                rec = ss.log[-1] if ss.log else None
                k_last = len(ss.log) - 1
                if len(ss.log) > 1:
                    self.stats["several_solve_calls_for_one_optimize"] = self.stats.get("several_solve_calls_for_one_optimize", 0) + 1
                x = self.check_result(ops[0], res, rec, faults[k_last] if 0 <= k_last < len(faults) else None, tagp, bools_all[0])
                if x is not None:
                    self.events.append((tagp, canon.digest_canon({"v": float(res.value)}, nd=4)))
                    if target == "robust" and self.samples is not None:
                        vals = [float(-s @ x) for s in self.samples]
                        if min(vals) < float(-np.asarray(ops[0].c) @ x) - 1e-9:
                            self.probes["robust_with_binding_sample"] += 1
            else:
                self.check_split(joint_len, ops, res, ss.log, faults, bools_all)
        if self.violation is not None and ci > 0:
            self.violation["detail"] = "call %d on the same problem object (after %s): %s" % (
                ci, [("soft" if c.get("soft") else "plain") + "/" + str(c.get("solver")) for c in plan.get("pre_calls", [])][:ci], self.violation["detail"])
        self.pairs.add(self.cell(rowsig, split, outcome, faults, ss.log, call, ci))
        return outcome

    def check_split(self, joint_len, ops, res, log, faults, bools_all):
        if isinstance(res, str) or res is None:
            self.events.append(("split", "fail:%s" % res))
            if isinstance(res, str) and not any(faults) and all(r.get("status") in ("optimal", "infeasible") for r in log):
                # a failure string of the split optimiser in a fault-free conversation claims that the joint problem has no
                # feasible point, i.e. that some interval has none
                self.stats["failures_checked"] += 1
                refs = [reference(o, bl) for o, bl in zip(ops, bools_all)]
                self.stats["ref_solves"] += len(refs)
                if all(r_[0] == "optimal" for r_ in refs):
                    said = [k for k, r in enumerate(log) if r.get("status") == "infeasible"]
                    if not said:
                        self.viol("failure-reported-but-feasible", "the split optimize() reports '%s' although no solver call ended 'infeasible' (statuses %s) and "
                                  "every interval has a feasible point (verified witnesses)" % (res, [r.get("status") for r in log]), "split-not-successful")
                    elif getattr(self, "misaligned", False) or len(log) != len(ops):
                        self.stats["inconclusive"] += 1
                    else:
                        for k in said:
                            cv = None
                            if k in self.requests:
                                prob, xv, oth = self.requests[k]
                                try:
                                    xv.save_value(np.asarray(refs[k][2], float))
                                    self.set_aux(oth, refs[k][2])
                                    cv = max([float(np.max(np.atleast_1d(c.violation()), initial=0)) for c in prob.constraints] or [0.0])
                                except Exception:
                                    cv = None
                            if cv is not None and cv <= 1e-6 * (1 + float(np.abs(refs[k][2]).max(initial=0))) and not log[k].get("eao_options"):
                                self.stats["peer_false_infeasible"] = self.stats.get("peer_false_infeasible", 0) + 1
                            else:
                                self.viol("failure-reported-but-feasible", "interval %d: the split optimize() reports '%s' but the interval has a feasible point "
                                          "(verified witness) which is not feasible in the request EAO sent (violation there %r)" % (k, res, cv), "split-not-successful")
                                break
                elif any(r_[0] == "infeasible" for r_ in refs):
                    self.probes["true_infeasible_reported"] += 1
            else:
                self.stats["no_claim"] += 1
            return
        bad = [f for f in faults if f and (f == "raise" or f.startswith("status:"))]
        if bad and not getattr(self, "misaligned", False) and len(log) == len(ops):
            self.viol("success-after-nonoptimal-response", "an interval's peer answered %s but the split optimize() returned a Results" % bad[0], "split")
            return
        if not getattr(self, "misaligned", False) and any(r.get("status") != "optimal" for r in log):
            self.viol("success-after-nonoptimal-response", "interval statuses %s but the split optimize() returned a Results" % [r.get("status") for r in log], "split-status")
            return
        x = np.asarray(res.x, float)
        if len(x) != joint_len:
            self.viol("result-shape", "split result has %d entries, joint problem %d variables" % (len(x), joint_len), "split-x")
            return
        self.stats["split_results_checked"] += 1
        pos = 0
        total = 0.0
        for k, o in enumerate(ops):
            seg = x[pos:pos + len(o.c)]
            pos += len(o.c)

            class R:  # minimal stand-in for the interval's Results
                pass
            r = R()
            r.x, r.value = seg, float(-np.asarray(o.c, float) @ seg)
            total += r.value
            xx = self.check_result(o, r, dict(log[k], status="optimal", call=k) if k < len(log) else {"status": "optimal", "call": k}, None, "interval%d" % k, bools_all[k])
            if self.violation is not None:
                self.violation["detail"] = "interval %d: %s" % (k, self.violation["detail"])
                return
        otol = self.tols()[1]
        if abs(float(res.value) - total) > max(otol, 1e-6) * (1 + abs(total) + sum(float(np.abs(o.c) @ np.abs(x[a_:a_ + len(o.c)])) for o, a_ in zip(ops, np.cumsum([0] + [len(o.c) for o in ops[:-1]])))):
            self.viol("split-value-not-sum", "split value %r, but minus cost times the returned vector, summed over the intervals, is %r" % (float(res.value), total), "split-value")
            return
        self.events.append(("split", canon.digest_canon({"v": float(res.value)}, nd=4)))

    def cell(self, rowsig, split, outcome, faults, log, call, ci):
        plan = self.plan
        f = [x for x in faults if x]
        fk = "-" if not f else f[0]
        trivial = (not f) and not split and call.get("target", "value") == "value" and call.get("solver") is None and not plan["cfg"].get("mip") \
            and plan["source"]["kind"] == "portfolio" and outcome == "results" and ci == 0
        return ("T|" if trivial else "N|") + "|".join([plan["source"]["kind"], rowsig, "mip" if plan["cfg"].get("mip") else "lp",
                                                        str(call.get("solver")), fk, call.get("target", "value"),
                                                        ("soft" if self.soft else "-") + ("/" + plan["soft_spelling"] if plan.get("soft_spelling") else "")
                                                        + ("/flags-disagree" if plan.get("flag_disagreement") else ""), outcome, "call%d" % ci])

    def result(self, outcome):
        if self.harness_error:
            raise core.HarnessError(self.harness_error)
        dg = canon.digest_canon([list(e) for e in self.events] + [outcome])
        return {"violation": self.violation, "digest": dg, "stats": self.stats, "faults": self.faults,
                "probes": self.probes, "pairs": sorted(self.pairs)}


def execute(plan):
    return Conversation(plan).run()


def simplify_candidates(plan):
    src = plan["source"]
    for k in ("soft",):
        if plan.get(k):
            c = copy.deepcopy(plan)
            c.pop(k)
            yield c
    if any(plan["faults"]):
        c = copy.deepcopy(plan)
        c["faults"] = [None] * len(plan["faults"])
        yield c
    for i in range(len(plan.get("pre_calls", []))):
        c = copy.deepcopy(plan)
        del c["pre_calls"][i]
        yield c
    if plan.get("target") == "robust":
        c = copy.deepcopy(plan)
        c["target"] = "value"
        yield c
    if src["kind"] == "direct":
        for i in range(len(src["rows"])):
            c = copy.deepcopy(plan)
            del c["source"]["rows"][i]
            yield c
    elif src["kind"] == "direct_split":
        if len(src["parts"]) > 2:
            for i in range(len(src["parts"])):
                c = copy.deepcopy(plan)
                del c["source"]["parts"][i]
                yield c
    else:
        w = src["world"]
        P = src["portfolio"]
        assets = w["portfolios"][P]["assets"]
        if len(assets) > 1:
            for a in assets:
                c = copy.deepcopy(plan)
                c["source"]["world"]["portfolios"][P]["assets"] = [x for x in assets if x != a]
                yield c


def aggregate(results):
    agg = {"stats": {}, "faults_fired": {}, "probes": {}}
    pairs, digs = set(), set()
    samples = []
    for r in results:
        if r.get("harness_error"):
            continue
        core.merge_counts(agg["stats"], r.get("stats"))
        core.merge_counts(agg["faults_fired"], r.get("faults"))
        core.merge_counts(agg["probes"], r.get("probes"))
        pairs.update(r.get("pairs", []))
        digs.add(r.get("digest"))
        if len(samples) < 3 and r.get("plan"):
            p = r["plan"]
            s = {"run_index": r["run_index"], "seed": r["seed"], "solver": p.get("solver"), "target": p.get("target"),
                 "faults": p.get("faults"), "kind": p["source"]["kind"]}
            if p["source"]["kind"] == "direct":
                s["problem"] = {k: p["source"][k] for k in ("n", "c", "l", "u", "rows", "bools")}
            elif p["source"]["kind"] == "direct_split":
                s["problem"] = [{k: q[k] for k in ("n", "c", "l", "u", "rows", "bools")} for q in p["source"]["parts"]]
            else:
                s["assets"] = {a: x["cls"] for a, x in p["source"]["world"]["assets"].items()}
                s["grid"] = p["source"]["world"]["grids"][p["source"]["grid"]]
            samples.append(s)
    nt = sorted(p for p in pairs if p.startswith("N|"))
    agg["evaluations"] = len([r for r in results if not r.get("harness_error")])
    agg["distinct_nontrivial"] = len(nt)
    agg["distinct_pairs_total"] = len(pairs)
    agg["rule"] = ("one evaluation = one simulated conversation with the solver peer (1 request, or one per interval of a split problem). "
                   "distinct_nontrivial counts distinct cells (problem source direct/portfolio/split, row classes present, LP/MIP, solver "
                   "choice, response fault kind, target value/robust, soft flag, outcome results/fail/raise); the cell 'portfolio LP, "
                   "default solver, no fault, success' - what the existing suite exercises - is trivial")
    agg["simulated_time"] = "%d solver conversations (no clock in EAO)" % agg["stats"].get("conversations", 0)
    agg["distinct_event_log_digests"] = len(digs)
    agg["sample_nontrivial_cells"] = nt[:12]
    agg["samples"] = samples or [{"cells": nt[:5]}]
    return agg
