"""C11 - JSON round trip preserves every asset and portfolio.

Simulated world: the disk behind to_json / load_from_json (SimDisk: ENOSPC, EIO on close / read,
short read, crash before close), process restart with only the files surviving, and the call
history that shaped the object before it was saved.  Reference: a deep copy of the object taken
immediately before the save (independent of the serialiser).  See DESIGN.md section 3.2.
"""
import copy
import json

import numpy as np
import pandas as pd

from sim import specs, canon, core, seams

ID = "C11"
DEFAULT_SEED = {"quick": 1111, "thorough": 2111}
TIERS = {"quick": {"runs": 1500, "budget_s": 100, "cap_s": 150},
         "thorough": {"runs": 36000, "budget_s": 1200, "cap_s": 240}}
STUBS = ["SimDisk behind eaopack.serialization.open (ENOSPC after k bytes, EIO on close, EIO on read, short read, crash before close)",
         "restart (all Python objects dropped, only SimDisk survives)", "the client that shapes the object before saving"]
ASSUMPTIONS = [
    "reference = copy.deepcopy of the object immediately before to_json (not the pristine spec: history effects on the object are C10's subject)",
    "R1 compares set-up on 2-3 probe (grid, prices) pairs - one naive, one zone-aware, one of another frequency - each on its own deep copies; both raising the same exception type counts as equal",
    "a to_json(obj, file) that returned is an acknowledged save; one that raised or was cut by a crash is not: a later load may raise, or return the new or the previously acknowledged object, never anything else",
    "a load hit by EIO or a short read must raise or return the complete object, never a partial one",
    "sub-second components of dates are not generated (the format stores seconds)",
]
REQUIRED_PROBES = ["saved_after_setup_on_aware_grid", "saved_chp_after_setup", "aware_own_grid_reloaded_with_naive_interval_data",
                   "ndarray_datetime64_in_dict", "datetimeindex_in_dict", "structured_inside_structured", "scaled_asset_saved",
                   "linked_asset_saved", "unacked_save_then_load", "crash_then_restart_load", "run_from_json_with_other_grid",
                   "grid_zone_only_through_dates", "chp_no_heat_flag", "attribute_assigned_before_save"]
SHRINK_KEYS = ["steps"]

SET_ATTRS = ["wacc", "time_already_running", "asset2_time_already_running", "fix_costs", "costs_const", "cost_in", "cost_out",
             "cost_store", "efficiency", "time_back", "time_forward", "last_dispatch", "time_already_running", "asset2_time_already_running"]


def flat_assets(obj):
    """All asset objects reachable from a live portfolio / asset (wrappers, what they wrap, linked assets)."""
    out, seen = [], set()

    def walk(o):
        if id(o) in seen:
            return
        seen.add(id(o))
        if hasattr(o, "assets") and not hasattr(o, "nodes_"):  # Portfolio
            for a in o.assets:
                walk(a)
            return
        out.append(o)
        for k in ("base_asset", "asset1", "asset2"):
            if hasattr(o, k):
                walk(getattr(o, k))
        if hasattr(o, "portfolio"):
            walk(o.portfolio)
    walk(obj)
    return out


def apply_set_attr(obj, idx, attr, cls=None):
    """Assign a new, still valid value to one numeric attribute; returns a description or None (no-op)."""
    fl = flat_assets(obj)
    if cls:
        fl = [a for a in fl if type(a).__name__ == cls and hasattr(a, attr)]
    if not fl:
        return None
    a = fl[idx % len(fl)]
    v = getattr(a, attr, None)
    if isinstance(v, bool) or not isinstance(v, (int, float)):
        return None
    if attr == "wacc":
        new = 0.07 if v != 0.07 else 0.03
    elif attr == "time_already_running":
        if getattr(a, "time_already_off", 0) != 0:
            return None
        new = v + 1
    elif attr in ("asset2_time_already_running", "time_back", "time_forward"):
        new = v + 1
    elif attr == "efficiency":
        new = 0.85 if v != 0.85 else 0.95
    elif attr == "last_dispatch":
        new = v
        return None if v == 0 else None
    else:
        new = round(v + 0.5, 3)
    setattr(a, attr, new)
    return "%s.%s=%r" % (type(a).__name__, attr, new)


# --------------------------------------------------------------------------- generation


PROC_ZONES = ["Europe/Berlin", "America/New_York", "Asia/Kolkata", "Australia/Lord_Howe", "UTC", "Pacific/Kiritimati"]


def gen_plan(rng, run_index, tier, opts):
    env = specs.Env(rng, max_T=36)
    env.allow_date_only_zone = True
    env.unicode_names = rng.random() < 0.2
    env.special_floats = rng.random() < 0.3
    env.date_names = rng.random() < 0.08
    r_ = rng.random()
    env.odd_names = "case" if r_ < 0.07 else ("blanks" if r_ < 0.14 else None)
    if rng.random() < 0.25:
        env.arr_T = -1          # set to the step count of the home grid below: parameters as plain per-step arrays
    if rng.random() < 0.12:
        env.freqs = ["MS", "W-MON"]        # calendar grids (the grid's frequency string goes through the JSON too)
    w = env.world
    want_arr = getattr(env, "arr_T", None)
    env.arr_T = None
    g0 = specs.gen_grid(env)
    if want_arr:
        env.arr_T = specs.grid_info(w, g0).T
    f0 = w["grids"][g0]["freq"]
    # probe grids: naive, aware, other frequency (same date range)
    probes = [g0]
    tz0 = w["grids"][g0]["tz"]
    other_tz = rng.choice(["CET", "UTC"]) if tz0 is None else None
    gp = specs.gen_grid(env, freq=f0, tz=other_tz)
    probes.append(gp)
    f2 = rng.choice([f for f in ["h", "4h", "d", "15min"] if f != f0]) if f0 not in specs.CAL_FREQS else "d"
    probes.append(specs.gen_grid(env, freq=f2, tz=tz0))
    mip = rng.random() < 0.5
    P = specs.gen_portfolio(env, grid_freq=f0, mip_ok=mip, n_assets=rng.randint(1, 4))
    if rng.random() < 0.2:
        # structured inside structured
        nodes = sorted({n for a in w["portfolios"][P]["assets"] for n in specs.asset_nodes(w, a)})
        n = rng.choice(nodes)
        inner_node = specs.gen_nodes(env, 1)[0]
        inner = [specs.gen_transport(env, inner_node, n, f0, ext=False), specs.gen_storage(env, [inner_node], f0, mip_ok=False)]
        sa1, _ = specs.gen_structured(env, inner, [n])
        sa2, _ = specs.gen_structured(env, [sa1, specs.gen_simple_contract(env, n, f0, rich=False)], [n])
        w["portfolios"][P]["assets"].append(sa2)
    if mip and rng.random() < 0.3:
        nodes_ = sorted({n for a in w["portfolios"][P]["assets"] for n in specs.asset_nodes(w, a)})
        if len(nodes_) >= 2:
            la, _ = specs.gen_linked(env, nodes_[0], nodes_[1], f0)
            w["portfolios"][P]["assets"].append(la)
    own_grid = rng.random() < 0.6
    if own_grid:
        w["portfolios"][P]["grid"] = g0
    assets = w["portfolios"][P]["assets"]
    if rng.random() < 0.55:
        target = P
    else:
        target = rng.choice(assets)
        # wrappers and what they wrap are targets too
        sub = [a for a in specs.referenced_ids(w, target) if a[0] == "a"]
        target = rng.choice(sorted(sub))
    prices = {g: specs.gen_prices(env, g, form=rng.choice(["dict_nd", "dict_nd", "df_dti"])) for g in probes}
    world = specs.clean_world(w)
    steps = []
    n_gen = rng.choice([1, 1, 2, 3])
    sub_cls = {w["assets"][a]["cls"] for a in specs.referenced_ids(w, target) if a[0] == "a"}
    targeted = []
    if "LinkedAsset" in sub_cls:
        targeted += [{"cls": "LinkedAsset", "attr": "asset2_time_already_running"}, {"cls": "CHPAsset", "attr": "time_already_running"},
                     {"cls": "LinkedAsset", "attr": "time_back"}]
    if sub_cls & {"CHPAsset", "Plant", "CHPAsset_with_min_load_costs"}:
        targeted += [{"cls": c_, "attr": "time_already_running"} for c_ in sorted(sub_cls & {"CHPAsset", "Plant", "CHPAsset_with_min_load_costs"})]
    if "ScaledAsset" in sub_cls:
        targeted += [{"cls": "ScaledAsset", "attr": "fix_costs"}]
    have_file = False
    for gen in range(n_gen):
        for _ in range(rng.choice([0, 0, 1, 2, 3])):
            g = rng.choice(probes[:2])
            r = rng.random()
            if r < 0.6:
                steps.append({"op": "hist", "call": "setup", "grid": g, "prices": prices[g]})
            elif r < 0.72:
                steps.append({"op": "hist", "call": "set_timegrid", "grid": g})
            elif r < 0.82:
                steps.append({"op": "hist", "call": "to_json"})
            else:
                # the user updates a parameter by assignment (rolling runs update running times, levels, costs ...)
                st_ = {"op": "hist", "call": "set_attr", "idx": rng.randrange(12), "attr": rng.choice(SET_ATTRS)}
                if targeted and rng.random() < 0.6:
                    st_.update(rng.choice(targeted))
                if rng.random() < 0.25:
                    # ... or completes a node (commodity / unit set later) - often after the object was written once.  (Not
                    # renamed: a Portfolio indexes its nodes by name when it is constructed, so renaming a node of a live
                    # portfolio leaves it inconsistent - the reloaded one is rebuilt and differs, which is not the JSON's fault)
                    st_ = {"op": "hist", "call": "node_attr", "idx": rng.randrange(12), "what": rng.choice(["commodity", "commodity", "unit"])}
                    if rng.random() < 0.6:
                        steps.append({"op": "hist", "call": "to_json"})
                steps.append(st_)
        path = rng.choice(["string", "file", "file"])
        if gen > 0 and rng.random() < 0.35:
            # one number changed by assignment, then saved again under the same name: the file must hold the new object
            steps.append({"op": "hist", "call": "set_attr", "idx": rng.randrange(12), "attr": rng.choice(["wacc", "cost_in", "cost_out", "costs_const", "fix_costs", "wacc"])})
            path = "file"
        st = {"op": "save", "path": path}
        if path == "file":
            r = rng.random()
            if r < 0.10:
                st["fault"] = "enospc"
                st["frac"] = round(rng.random(), 3)
            elif r < 0.18:
                st["fault"] = "eio_close"
            elif r < 0.28:
                st["fault"] = "crash"
                st["frac"] = round(rng.choice([rng.random(), 1.0, 0.0, 0.999]), 3)
        steps.append(st)
        if path == "file" and not st.get("fault") == "crash" and rng.random() < 0.3:
            steps.append({"op": "restart"})
        ld = {"op": "load", "path": path}
        if path == "string" and target[0] == "P" and not mip and rng.random() < 0.2:
            ld["rfj"] = True
            if not (own_grid and rng.random() < 0.5):
                ld["rfj_grid"] = rng.choice(probes[:2])
        if path == "file":
            r = rng.random()
            if r < 0.08:
                ld["fault"] = "eio_read"
            elif r < 0.18:
                ld["fault"] = "short_read"
                ld["frac"] = round(rng.choice([rng.random(), 1.0, 0.98]), 3)
            elif r < 0.28:
                ld["path"] = "file_text"     # the user reads the file himself (utf-8 text) and hands the text to load_from_json
            elif r < 0.44 and target[0] == "P" and not mip:
                if own_grid and rng.random() < 0.5:
                    ld["path"] = "run_from_json"
                else:
                    ld["path"] = "run_from_json"
                    ld["rfj_grid"] = rng.choice(probes[:2])   # grid handed to run_from_json (overrides a stored one)
        steps.append(ld)
        if ld.get("path") in ("run_from_json", "file") and not ld.get("fault") and rng.random() < 0.35:
            # the same file is read again (by name): a second run with the stored grid after one with another grid, a second load
            ld2 = {"op": "load", "path": ld["path"]}
            if ld["path"] == "run_from_json" and not ld.get("rfj_grid") and not own_grid:
                ld2["rfj_grid"] = rng.choice(probes[:2])
            elif ld["path"] == "run_from_json" and ld.get("rfj_grid") and not own_grid:
                ld2["rfj_grid"] = [g_ for g_ in probes[:2] if g_ != ld["rfj_grid"]][0] if len(set(probes[:2])) > 1 else ld["rfj_grid"]
            steps.append(ld2)
        if st.get("fault") in ("enospc", "eio_close", "crash") or ld.get("fault"):
            # retry after the fault: a clean save + load must work again (bounded liveness)
            steps.append({"op": "save", "path": "file"})
            steps.append({"op": "load", "path": "file"})
    plan = {"world": world, "target": target, "probes": [[g, prices[g]] for g in probes], "home": g0,
            "own_grid": bool(own_grid and target[0] == "P"), "steps": steps, "cfg": {"mip": mip},
            "fname": rng.choice(["obj.json", "obj.json", "obj.json", "portfolio", "book.v2", "P.JSON", "dir/obj.json"])}
    # (round 10, drawn last) the zone of the machine: of the process that saves and of every restarted process
    if rng.random() < 0.4:
        n_proc = 1 + sum(1 for s_ in steps if s_["op"] == "restart" or s_.get("fault") == "crash")
        plan["proc_tz"] = [rng.choice(PROC_ZONES) for _ in range(n_proc)]
    if rng.random() < 0.1:
        plan["fname_as_path"] = True
    if rng.random() < 0.25:
        # the locale's encoding (what open() uses when none is named), per process like the zone
        n_proc = 1 + sum(1 for s_ in steps if s_["op"] == "restart" or s_.get("fault") == "crash")
        plan["locale_enc"] = [rng.choice(["latin-1", "cp1252", "ascii", "iso8859-15", "utf-8"]) for _ in range(n_proc)]
    if rng.random() < 0.1:
        # a price column called after a delivery day (keys are free text)
        plan["date_like_price_key"] = True
        specs.rename_price_key(world, rng.choice(specs.PRICE_KEYS), rng.choice(["2021-01-02", "2021-03-01 00:00:00", "2021-06"]))
    if rng.random() < 0.12:
        plan["constant_arrays"] = specs.make_arrays_constant(world, rng)
    if rng.random() < 0.2:
        # several objects saved in one document (a list / a dictionary of assets and portfolios): every one of them comes back
        pool = sorted(a_ for a_ in specs.referenced_ids(world, P) if a_[0] == "a")
        members = [target] + rng.sample(pool, min(len(pool), rng.choice([1, 2])))
        if rng.random() < 0.4 and P not in members:
            members.append(P)
        plan["steps"].append({"op": "bundle", "form": rng.choice(["list", "dict", "nested"]), "members": members,
                              "path": rng.choice(["string", "file"])})
    return plan


# --------------------------------------------------------------------------- executor


def _setup(obj, prices, grid):
    return obj.setup_optim_problem(prices, grid)


def outcome(fn):
    try:
        return ("ok", canon.canon_op(fn()))
    except core.HarnessError:
        raise
    except Exception as e:
        return ("raise", canon.exc_sig(e))


class Run:
    def __init__(self, plan):
        self.plan = plan
        self.w = plan["world"]
        self.B = specs.Builder(self.w)
        self.disk = seams.SimDisk()
        self.live = self.B.obj(plan["target"])
        self.live_grid = plan["home"] if plan.get("own_grid") else None   # grid id the live portfolio holds
        self.pgrid = {g: p for g, p in plan["probes"]}
        self.fname = plan.get("fname", "obj.json")      # the name the user saves under and loads from
        self.fname_arg = self.fname
        if plan.get("fname_as_path"):
            import pathlib
            self.fname_arg = pathlib.PurePosixPath(self.fname)      # a path object instead of a string
        self.text = None           # last string form
        self.text_snap = None
        self.acked_snap = None     # reference for the last acknowledged file save
        self.pending_snap = None   # reference for a save that was not acknowledged
        self.violation = None
        self.events = []
        self.faults = {}
        self.probes = {k: 0 for k in REQUIRED_PROBES}
        self.stats = {"saves": 0, "loads": 0, "loads_checked": 0, "r1_probes": 0, "r2_checked": 0, "r3_checked": 0,
                      "hist_calls": 0, "load_raised_after_fault": 0, "generations": 0, "r4_checked": 0}
        self.pairs = set()
        self.hist_sig = []
        self.did_setup_aware = False
        self.did_setup = False
        self.need_liveness = False

    def fault(self, k):
        self.faults[k] = self.faults.get(k, 0) + 1

    def viol(self, clause, step, detail, field=""):
        if self.violation is None:
            self.violation = {"clause": clause, "step": step, "detail": detail, "field": field,
                              "signature": "%s|%s|%s" % (ID, clause, field)}

    # ---- structure facts for probes / coverage
    def class_sig(self):
        ids = [a for a in specs.referenced_ids(self.w, self.plan["target"]) if a[0] == "a"]
        return sorted({self.w["assets"][a]["cls"] for a in ids})

    def note_save_probes(self):
        w = self.w
        ids = [a for a in specs.referenced_ids(w, self.plan["target"]) if a[0] == "a"]
        classes = {w["assets"][a]["cls"] for a in ids}
        if self.did_setup_aware:
            self.probes["saved_after_setup_on_aware_grid"] += 1
        if self.did_setup and classes & {"CHPAsset", "Plant", "CHPAsset_with_min_load_costs"}:
            self.probes["saved_chp_after_setup"] += 1
        if "ScaledAsset" in classes:
            self.probes["scaled_asset_saved"] += 1
        if any(w["assets"][a]["kw"].get("_no_heat") for a in ids):
            self.probes["chp_no_heat_flag"] += 1
        if self.live_grid and w["grids"][self.live_grid].get("date_zone") and hasattr(self.live, "timegrid") and hasattr(self.live, "assets"):
            self.probes["grid_zone_only_through_dates"] += 1
        if "LinkedAsset" in classes:
            self.probes["linked_asset_saved"] += 1
        txt = json.dumps([w["assets"][a]["kw"] for a in ids] + [w["dicts"][d] for d in specs.referenced_ids(w, self.plan["target"]) if d[0] == "d"])
        if '"nd_dt"' in txt:
            self.probes["ndarray_datetime64_in_dict"] += 1
        if '"dti"' in txt:
            self.probes["datetimeindex_in_dict"] += 1
        for a in ids:
            if w["assets"][a]["cls"] == "StructuredAsset":
                inner = w["portfolios"][w["assets"][a]["kw"]["portfolio"]["$portf"]]["assets"]
                if any(w["assets"][i]["cls"] == "StructuredAsset" for i in inner):
                    self.probes["structured_inside_structured"] += 1
                    break

    # ---- the oracle
    def compare(self, step, loaded, refs, how):
        """loaded must be equivalent to one of refs (list of snapshots)."""
        import eaopack as eao
        self.stats["loads_checked"] += 1
        problems = []
        for ref in refs:
            p = self.compare_one(step, loaded, ref)
            if p is None:
                return True
            problems.append(p)
        clause, detail, field = problems[0]
        if len(refs) > 1:
            detail = "loaded object matches neither the new nor the previously acknowledged content: " + detail
        self.viol(clause, step, detail + " [%s]" % how, field)
        return False

    def compare_one(self, step, loaded, ref):
        import eaopack as eao
        if type(loaded) is not type(ref):
            return ("R1-type", "loaded %s, saved %s" % (type(loaded).__name__, type(ref).__name__), "type")
        # R2
        try:
            a = eao.serialization.to_json(copy.deepcopy(loaded))
            b = eao.serialization.to_json(copy.deepcopy(ref))
        except Exception as e:
            return ("R2-resave-raises", "saving the loaded object raises %s: %s" % (type(e).__name__, str(e)[:160]), type(e).__name__)
        self.stats["r2_checked"] += 1
        if a != b:
            return ("R2-json-differs", first_text_diff(a, b), json_diff_key(a, b))
        # R3
        if hasattr(ref, "assets") and hasattr(ref, "timegrid") or hasattr(loaded, "assets") and hasattr(loaded, "timegrid"):
            if not (hasattr(ref, "timegrid") and hasattr(loaded, "timegrid")):
                return ("R3-own-grid", "own time grid present on one side only", "presence")
            self.stats["r3_checked"] += 1
            gr, gl = ref.timegrid, loaded.timegrid
            if str(gr.tz) != str(gl.tz):
                return ("R3-own-grid", "time zone %r became %r" % (gr.tz, gl.tz), "tz")
            if gr.freq != gl.freq or gr.main_time_unit != gl.main_time_unit:
                return ("R3-own-grid", "freq / main_time_unit changed", "freq")
            tr, tl = pd.DatetimeIndex(gr.timepoints), pd.DatetimeIndex(gl.timepoints)
            if len(tr) != len(tl) or not (tr == tl).all() or [str(t) for t in tr] != [str(t) for t in tl]:
                return ("R3-own-grid", "time points differ", "timepoints")
            if not np.allclose(gr.dt, gl.dt, rtol=0, atol=1e-12):
                return ("R3-own-grid", "step lengths differ", "dt")
        # R3 also for portfolios wrapped by structured / linked assets ("a portfolio's own time grid survives")
        def nested(o, acc, seen):
            if id(o) in seen:
                return acc
            seen.add(id(o))
            if hasattr(o, "assets") and isinstance(getattr(o, "assets"), list):
                acc.append(o)
                for a_ in o.assets:
                    nested(a_, acc, seen)
            else:
                for k_ in ("portfolio", "base_asset"):
                    if hasattr(o, k_):
                        nested(getattr(o, k_), acc, seen)
            return acc
        pr_, pl_ = nested(ref, [], set()), nested(loaded, [], set())
        if len(pr_) == len(pl_):
            for a_, b_ in list(zip(pr_, pl_))[1 if hasattr(ref, "assets") else 0:]:
                if hasattr(a_, "timegrid") != hasattr(b_, "timegrid"):
                    return ("R3-own-grid", "a wrapped portfolio's own time grid is present on one side only (saved: %s, loaded: %s)"
                            % (hasattr(a_, "timegrid"), hasattr(b_, "timegrid")), "nested-presence")
                if hasattr(a_, "timegrid"):
                    ga, gb = a_.timegrid, b_.timegrid
                    ta, tb = pd.DatetimeIndex(ga.timepoints), pd.DatetimeIndex(gb.timepoints)
                    if str(ga.tz) != str(gb.tz) or ga.freq != gb.freq or len(ta) != len(tb) or not (ta == tb).all():
                        return ("R3-own-grid", "a wrapped portfolio's own time grid differs after loading", "nested-grid")
        # R1
        for g, p in self.plan["probes"]:
            tw = specs.Builder(self.w)
            x, y = copy.deepcopy(ref), copy.deepcopy(loaded)
            o1 = outcome(lambda: _setup(x, tw.prices(p), tw.grid(g)))
            tw2 = specs.Builder(self.w)
            o2 = outcome(lambda: _setup(y, tw2.prices(p), tw2.grid(g)))
            self.stats["r1_probes"] += 1
            d = cmp_outcomes(o1, o2)
            if d:
                return ("R1-problem-differs", "probe grid %s: %s" % (g, d[0]), d[1])
        g = getattr(ref, "_verif_grid_id", None)
        if g is not None and hasattr(ref, "timegrid") and hasattr(ref, "assets"):
            p = self.pgrid[g]
            tw = specs.Builder(self.w)
            x, y = copy.deepcopy(ref), copy.deepcopy(loaded)
            o1 = outcome(lambda: x.setup_optim_problem(tw.prices(p)))
            o2 = outcome(lambda: y.setup_optim_problem(tw.prices(p)))
            self.stats["r1_probes"] += 1
            if self.w["grids"][g]["tz"] is not None:
                self.probes["aware_own_grid_reloaded_with_naive_interval_data"] += 1
            d = cmp_outcomes(o1, o2)
            if d:
                return ("R1-problem-differs", "own grid (timegrid=None): %s" % d[0], "owngrid:" + d[1])
        return None

    # ---- steps
    def step(self, i, st):
        import eaopack as eao
        op = st["op"]
        if op == "hist":
            if self.live is None:
                return
            self.stats["hist_calls"] += 1
            out = "ok"
            try:
                if st["call"] == "setup":
                    self.live_grid = st["grid"]
                    _setup(self.live, self.B.prices(st["prices"]), self.B.grid(st["grid"]))
                    self.did_setup = True
                    if self.w["grids"][st["grid"]]["tz"] is not None:
                        self.did_setup_aware = True
                elif st["call"] == "set_timegrid":
                    self.live_grid = st["grid"]
                    self.live.set_timegrid(self.B.grid(st["grid"]))
                elif st["call"] == "node_attr":
                    nodes_ = []
                    for a_ in flat_assets(self.live):
                        for n_ in (a_.nodes if isinstance(getattr(a_, "nodes", None), (list, tuple)) else [getattr(a_, "nodes", None)]):
                            if n_ is not None and hasattr(n_, "commodity") and not any(n_ is q for q in nodes_):
                                nodes_.append(n_)
                    if nodes_:
                        n_ = nodes_[st["idx"] % len(nodes_)]
                        if st["what"] == "commodity":
                            n_.commodity = "heat" if n_.commodity != "heat" else "steam"
                        else:
                            n_.unit = eao.assets.Unit(volume="MWh(th)", flow="MW(th)") if getattr(n_.unit, "volume", None) != "MWh(th)" else eao.assets.Unit()
                        out = "node:%s" % st["what"]
                        self.probes["node_changed_before_save"] = self.probes.get("node_changed_before_save", 0) + 1
                elif st["call"] == "set_attr":
                    d_ = apply_set_attr(self.live, st["idx"], st["attr"], st.get("cls"))
                    out = "set:%s" % d_
                    if d_:
                        self.probes["attribute_assigned_before_save"] = self.probes.get("attribute_assigned_before_save", 0) + 1
                else:
                    eao.serialization.to_json(self.live)
            except Exception as e:
                out = "raise:%s@%s" % canon.exc_sig(e)
            self.hist_sig.append(st["call"])
            self.events.append((i, "hist:" + st["call"], out))
        elif op == "save":
            if self.live is None:
                return
            self.stats["saves"] += 1
            self.note_save_probes()
            snap = copy.deepcopy(self.live)
            if hasattr(snap, "assets"):
                snap._verif_grid_id = self.live_grid  # oracle's note (Portfolio serialisation ignores unknown attributes)
            if st["path"] == "string":
                try:
                    self.text = eao.serialization.to_json(self.live)
                    self.text_snap = snap
                    self.events.append((i, "save:string", canon.digest_canon(self.text)))
                except Exception as e:
                    self.text = None
                    self.events.append((i, "save:string", "raise:%s@%s" % canon.exc_sig(e)))
                    self.viol("save-raises", i, "to_json raises %s: %s" % (type(e).__name__, str(e)[:200]), type(e).__name__)
                return
            faults = []
            f = st.get("fault")
            if f in ("enospc", "crash"):
                try:
                    total = len(eao.serialization.to_json(self.live))
                except Exception:
                    total = 0
                k = int(round(st.get("frac", 0.5) * total))
                faults = [("write", "%s@%d" % (f, k))]
            elif f == "eio_close":
                faults = [("write", "eio_close")]
            crashed = False
            raised = None
            with self.disk.mounted(faults) as d:
                try:
                    eao.serialization.to_json(self.live, self.fname_arg)
                except seams.SimCrash:
                    crashed = True
                except OSError as e:
                    raised = e
                except Exception as e:
                    raised = e
            for kk in list(d.fired):
                self.fault(kk)
            d.fired.clear()
            if raised is not None and not isinstance(raised, OSError):
                self.events.append((i, "save:file", "raise:%s@%s" % canon.exc_sig(raised)))
                self.viol("save-raises", i, "to_json(file) raises %s: %s" % (type(raised).__name__, str(raised)[:200]), type(raised).__name__)
                return
            if crashed or raised is not None:
                self.pending_snap = snap
                self.events.append((i, "save:file", "unacked:" + ("crash" if crashed else "oserror")))
                self.need_liveness = True
                if crashed:
                    self.restart(i)
                    self.probes["crash_then_restart_load"] += 1
            else:
                if self.fname not in self.disk.acked:
                    # injected fault did not fire (offset beyond the end): normal acknowledged save
                    pass
                self.acked_snap = snap
                self.pending_snap = None
                self.events.append((i, "save:file", canon.digest_canon(self.disk.files.get(self.fname, ""))))
        elif op == "restart":
            self.restart(i)
        elif op == "load":
            self.load(i, st)
        elif op == "bundle":
            self.bundle(i, st)

    def bundle(self, i, st):
        """Several objects in one document: the live target (with its history) next to pristine objects of the same world."""
        import eaopack as eao
        objs = []
        for k, m in enumerate(st["members"]):
            if k == 0 and self.live is not None:
                objs.append(self.live)
            else:
                objs.append(self.B.obj(m))
        if st["form"] == "list":
            doc = list(objs)
        elif st["form"] == "dict":
            doc = {"obj %d" % k: o for k, o in enumerate(objs)}
        else:
            doc = {"first": objs[0], "rest": list(objs[1:])}
        snap = copy.deepcopy(doc)
        self.fault("bundle_" + st["form"])
        try:
            if st["path"] == "file":
                with self.disk.mounted():
                    eao.serialization.to_json(doc, "bundle.json")
                    loaded = eao.serialization.load_from_json(file_name="bundle.json")
            else:
                loaded = eao.serialization.load_from_json(eao.serialization.to_json(doc))
        except Exception as e:
            et, fr = canon.exc_sig(e)
            # (the same objects saved one by one is what the other steps do; a document of several must work as well)
            ok_single = True
            try:
                for o in objs:
                    eao.serialization.load_from_json(eao.serialization.to_json(copy.deepcopy(o)))
            except Exception:
                ok_single = False
            if ok_single:
                self.viol("R1-bundle-raises", i, "saving / loading %d objects in one document raises %s (%s) in %s; each of them alone works"
                          % (len(objs), et, str(e)[:160], fr), "%s@%s" % (et, fr))
            self.events.append((i, "bundle", "raise:%s" % et))
            return

        def flat(d):
            if isinstance(d, dict):
                return [x for k in sorted(d) for x in flat(d[k])]
            if isinstance(d, (list, tuple)):
                return [x for e in d for x in flat(e)]
            return [d]
        fl, fs = flat(loaded), flat(snap)
        if type(loaded) is not type(snap) or len(fl) != len(fs) or (isinstance(snap, dict) and sorted(loaded) != sorted(snap)):
            self.viol("R1-bundle-shape", i, "document of %d objects (%s) came back as %s with %d objects" % (len(fs), st["form"], type(loaded).__name__, len(fl)), "shape")
            return
        self.stats["bundles_checked"] = self.stats.get("bundles_checked", 0) + 1
        for k, (lo, sn) in enumerate(zip(fl, fs)):
            p = self.compare_one(i, lo, sn)
            if p is not None:
                self.viol(p[0], i, "object %d of a document of %d: %s [bundle/%s]" % (k, len(fs), p[1], st["path"]), p[2])
                return
        self.events.append((i, "bundle", canon.digest_canon(eao.serialization.to_json(snap))))

    def _bump_proc(self):
        self.n_proc += 1
        return self.n_proc

    def restart(self, i):
        # only SimDisk survives; reference snapshots are the oracle's memory, not the system's
        self.live = None
        self.B = specs.Builder(self.w)
        self.text = None
        self.text_snap = None
        self.fault("restart")
        ptz = self.plan.get("proc_tz")
        if ptz:
            # the new process may run on a machine in another zone
            self.n_proc += 1
            z_ = ptz[min(self.n_proc, len(ptz) - 1)]
            self.zone.set(z_)
            self.fault("process_zone_" + z_)
        le = self.plan.get("locale_enc")
        if le:
            self.disk.default_encoding = le[min(self.n_proc if ptz else self._bump_proc(), len(le) - 1)]
        self.did_setup = False
        self.did_setup_aware = False
        self.events.append((i, "restart", ""))

    def load(self, i, st):
        import eaopack as eao
        self.stats["loads"] += 1
        path = st["path"]
        if path == "string":
            if self.text is None:
                return
            try:
                loaded = eao.serialization.load_from_json(self.text)
            except Exception as e:
                self.events.append((i, "load:string", "raise:%s@%s" % canon.exc_sig(e)))
                self.viol("load-raises", i, "load_from_json raises %s (%s) on what to_json produced" % (type(e).__name__, str(e)[:200]),
                          "%s@%s" % canon.exc_sig(e))
                return
            self.events.append((i, "load:string", "ok"))
            if self.compare(i, loaded, [self.text_snap], "string"):
                rg = st.get("rfj_grid") or getattr(self.text_snap, "_verif_grid_id", None)
                if st.get("rfj") and rg is not None and rg in self.pgrid:
                    # the whole chain from the JSON text: load, set up, optimise, extract
                    try:
                        kwr = {"timegrid": self.B.grid(st["rfj_grid"])} if st.get("rfj_grid") else {}
                        out = eao.serialization.run_from_json(json_str=self.text, prices=self.B.prices(self.pgrid[rg]), **kwr)
                    except Exception as e2:
                        out = ("raise", type(e2).__name__)
                    if not self.r4(i, st, out, self.text_snap, rg):
                        return
                    if st.get("rfj_grid"):
                        self.probes["run_from_json_with_other_grid"] = self.probes.get("run_from_json_with_other_grid", 0) + 1
                self.live = loaded
                self.live_grid = getattr(self.text_snap, "_verif_grid_id", None)
                self.stats["generations"] += 1
                self.cover(st, "acked")
            return
        if self.fname not in self.disk.files and self.acked_snap is None and self.pending_snap is None:
            return      # nothing was saved under that name yet
        refs = []
        acked = self.pending_snap is None
        if self.pending_snap is not None:
            refs.append(self.pending_snap)
            self.probes["unacked_save_then_load"] += 1
        if self.acked_snap is not None:
            refs.append(self.acked_snap)
        faults = []
        f = st.get("fault")
        if f == "eio_read":
            faults = [("read", "eio_read")]
        elif f == "short_read":
            k = int(round(st.get("frac", 0.5) * len(self.disk.files.get(self.fname, ""))))
            faults = [("read", "short_read@%d" % k)]
        exc = None
        loaded = None
        ran = False
        with self.disk.mounted(faults) as d:
            try:
                rfj_g = st.get("rfj_grid")
                if path == "run_from_json" and refs and (rfj_g or getattr(refs[0], "_verif_grid_id", None) is not None):
                    rg = rfj_g or refs[0]._verif_grid_id
                    loaded = eao.serialization.load_from_json(file_name=self.fname_arg)
                    try:
                        kwr = {"timegrid": self.B.grid(rfj_g)} if rfj_g else {}
                        out = eao.serialization.run_from_json(file_name_in=self.fname_arg, prices=self.B.prices(self.pgrid[rg]), **kwr)
                    except Exception as e2:
                        out = ("raise", type(e2).__name__)
                    ran = rg
                elif path == "file_text":
                    with d.open(self.fname, "r", encoding="utf-8") as fh:
                        txt = fh.read()
                    loaded = eao.serialization.load_from_json(txt)
                    self.probes["file_loaded_as_text"] = self.probes.get("file_loaded_as_text", 0) + 1
                else:
                    loaded = eao.serialization.load_from_json(file_name=self.fname_arg)
            except Exception as e:
                exc = e
        for kk in list(d.fired):
            self.fault(kk)
        d.fired.clear()
        if exc is not None:
            self.events.append((i, "load:" + path, "raise:%s@%s" % canon.exc_sig(exc)))
            if f is None and acked:
                self.viol("load-raises", i, "loading an acknowledged save raises %s (%s)" % (type(exc).__name__, str(exc)[:200]),
                          "%s@%s" % canon.exc_sig(exc))
            else:
                self.stats["load_raised_after_fault"] += 1
                self.cover(st, "raised")
            return
        self.events.append((i, "load:" + path, "ok"))
        if not refs:
            return
        if self.compare(i, loaded, refs, path + ("" if acked else ":unacked")):
            if ran and acked and f is None:
                if not self.r4(i, st, out, refs[0], ran):
                    return
            self.live = loaded
            self.live_grid = getattr(refs[0], "_verif_grid_id", None) if acked or len(refs) == 1 else None
            if ran and st.get("rfj_grid"):
                self.probes["run_from_json_with_other_grid"] = self.probes.get("run_from_json_with_other_grid", 0) + 1
            self.stats["generations"] += 1
            if acked:
                self.need_liveness = False
            self.cover(st, "acked" if acked else "unacked")

    def r4(self, i, st, out, snap, ran):
        """R4: what could be optimised before saving can be optimised after loading, with the same value.  False: violation."""
        import eaopack as eao
        # R4: what could be optimised before saving can be optimised after loading, with the same value
        ref = copy.deepcopy(snap)
        p = self.pgrid[ran]
        tw = specs.Builder(self.w)
        try:
            if st.get("rfj_grid"):
                ref.set_timegrid(tw.grid(st["rfj_grid"]))   # documented: the grid given to run_from_json is the one used
            pr_ = tw.prices(p)
            opr = ref.setup_optim_problem(pr_)
            rr = opr.optimize()
            if isinstance(rr, str):
                v_ref = None
            else:
                # the same steps run_from_json takes, incl. the extraction of the output tables (which has
                # limitations of its own, e.g. a portfolio without any nodal restriction - soak seed 405)
                eao.io.extract_output(ref, opr, rr, pr_)
                v_ref = float(rr.value)
        except Exception as e3:
            v_ref = ("raise", type(e3).__name__)
        v_new = None
        if isinstance(out, tuple) or isinstance(v_ref, tuple):
            self.stats["r4_checked"] += 1
            if isinstance(v_ref, tuple) and not isinstance(out, tuple):
                # the object before saving cannot be optimised but the loaded one can (zoneinfo start + block_size, section
                # 9.3 item 7): nothing that could be optimised before is lost - not charged, as in R1
                self.stats["saved_raises_loaded_works"] = self.stats.get("saved_raises_loaded_works", 0) + 1
                return True
            if isinstance(out, tuple) != isinstance(v_ref, tuple):
                self.viol("R4-run-from-json-value", i, "run_from_json: %r, same steps on the object before saving: %r" % (out if isinstance(out, tuple) else "works", v_ref if isinstance(v_ref, tuple) else "works"), "raises")
                return False
        elif isinstance(out, dict) and out.get("summary") is not None and hasattr(out["summary"], "loc"):
            v_new = float(out["summary"].loc["value", "Values"])
            self.stats["r4_checked"] += 1
        if isinstance(v_ref, float) and not isinstance(out, tuple) and (v_new is None or abs(v_new - v_ref) > 1e-6 * (1 + abs(v_ref))):
            self.viol("R4-run-from-json-value", i, "run_from_json value %r, value before saving %r" % (v_new, v_ref), "value")
            return False
        return True

    def cover(self, st, result):
        hist = ",".join(sorted(set(self.hist_sig))) or "nohist"
        pz = self.plan.get("proc_tz")
        zsig = "-" if not pz else ("zone" if len(set(pz[:self.n_proc + 1])) == 1 else "zones-differ")
        key = "%s|%s|%s|%s|%s|%s" % (st["path"], st.get("fault", "-"), result, hist, zsig, "+".join(self.class_sig()))
        trivial = st["path"] == "string" and not self.hist_sig
        self.pairs.add(("T|" if trivial else "N|") + key)

    def run(self):
        zone = seams.ProcessZone()
        self.zone, self.n_proc = zone, 0
        try:
            if self.plan.get("proc_tz"):
                zone.set(self.plan["proc_tz"][0])
                self.fault("process_zone_" + self.plan["proc_tz"][0])
            if self.plan.get("locale_enc"):
                self.disk.default_encoding = self.plan["locale_enc"][0]
                self.fault("locale_encoding_" + self.plan["locale_enc"][0])
            with core.quiet():
                for i, st in enumerate(self.plan["steps"]):
                    self.step(i, st)
                    if self.violation is not None:
                        break
        finally:
            zone.restore()
        dg = canon.digest_canon([list(e) for e in self.events])
        return {"violation": self.violation, "digest": dg, "stats": self.stats, "faults": self.faults,
                "probes": self.probes, "pairs": sorted(self.pairs), "n_steps": len(self.plan["steps"])}


def cmp_outcomes(o1, o2):
    if o1[0] != o2[0]:
        if o1[0] == "ok":
            return ("set-up works on the saved object but raises %s in %s on the loaded one" % o2[1], "%s@%s" % o2[1])
        # The saved object cannot be set up on this probe at all (e.g. a zoneinfo date that pandas refuses to mix with
        # its own zone objects) while the loaded one - normalised by the constructors - can: nothing that could be
        # optimised before is lost, and there is no problem of the original to be identical to.  Counted, not charged.
        return None
    if o1[0] == "raise":
        # neither object can be set up on this probe; HOW they fail may differ after the constructors normalised the
        # loaded one (found by the soak: TypeError vs KeyError for a zoneinfo date) - no problem exists to be compared
        return None
    d = canon.diff_canon(o1[1], o2[1])
    if d:
        f = d
        for sep in ("[", " ", ":"):
            if sep in f:
                f = f.split(sep, 1)[0]
        return (d, f)
    return None


def first_text_diff(a, b):
    la, lb = a.splitlines(), b.splitlines()
    for i, (x, y) in enumerate(zip(la, lb)):
        if x != y:
            return "JSON of the loaded object differs from JSON of the saved one at line %d: %r vs %r" % (i, x.strip()[:80], y.strip()[:80])
    return "JSON length differs (%d vs %d lines)" % (len(la), len(lb))


def json_diff_key(a, b):
    """first differing key path (coarse) for the signature"""
    try:
        ja, jb = json.loads(a), json.loads(b)
    except Exception:
        return "unparseable"

    def walk(x, y, path):
        if type(x) is not type(y):
            return path
        if isinstance(x, dict):
            for k in sorted(set(x) | set(y)):
                if k not in x or k not in y:
                    return path + [k]
                r = walk(x[k], y[k], path + [k])
                if r:
                    return r
            return None
        if isinstance(x, list):
            if len(x) != len(y):
                return path + ["len"]
            for i, (p, q) in enumerate(zip(x, y)):
                r = walk(p, q, path + ["[]"])
                if r:
                    return r
            return None
        return None if x == y else path
    p = walk(ja, jb, [])
    return "/".join(str(k) for k in (p or ["?"])[-2:])


def execute(plan):
    return Run(plan).run()


def simplify_candidates(plan):
    w = plan["world"]
    t = plan["target"]
    if t[0] == "P":
        assets = w["portfolios"][t]["assets"]
        if len(assets) > 1:
            for a in assets:
                c = copy.deepcopy(plan)
                c["world"]["portfolios"][t]["assets"] = [x for x in assets if x != a]
                yield c
    for k_ in ("proc_tz", "locale_enc"):
        if plan.get(k_):
            c = copy.deepcopy(plan)
            c.pop(k_)
            yield c
    for i, st in enumerate(plan["steps"]):
        if st.get("fault"):
            c = copy.deepcopy(plan)
            c["steps"][i].pop("fault")
            yield c
        if st.get("path") == "file" and not st.get("fault"):
            c = copy.deepcopy(plan)
            c["steps"][i]["path"] = "string"
            yield c
    keep = ("name", "nodes", "size", "cap_in", "cap_out", "portfolio", "base_asset", "orders", "asset1_variable",
            "asset2_variable", "min_cap", "max_cap")
    used = specs.referenced_ids(w, t)
    for aid in sorted(a for a in used if a[0] == "a"):
        for k in sorted(w["assets"][aid]["kw"]):
            if k in keep:
                continue
            c = copy.deepcopy(plan)
            del c["world"]["assets"][aid]["kw"][k]
            yield c


def aggregate(results):
    agg = {"stats": {}, "faults_fired": {}, "probes": {}}
    pairs, digs = set(), set()
    samples = []
    steps = 0
    for r in results:
        if r.get("harness_error"):
            continue
        core.merge_counts(agg["stats"], r.get("stats"))
        core.merge_counts(agg["faults_fired"], r.get("faults"))
        core.merge_counts(agg["probes"], r.get("probes"))
        pairs.update(r.get("pairs", []))
        digs.add(r.get("digest"))
        steps += r.get("n_steps", 0)
        if len(samples) < 3 and r.get("plan"):
            w = r["plan"]["world"]
            samples.append({"run_index": r["run_index"], "seed": r["seed"], "target": r["plan"]["target"],
                            "assets": {a: s["cls"] for a, s in w["assets"].items()}, "steps": r["plan"]["steps"]})
    nt = sorted(p for p in pairs if p.startswith("N|"))
    agg["evaluations"] = len([r for r in results if not r.get("harness_error")])
    agg["distinct_nontrivial"] = len(nt)
    agg["distinct_pairs_total"] = len(pairs)
    agg["rule"] = ("one evaluation = one simulated run (object pool, history of 0-3 calls per generation, 1-3 save/load generations on "
                   "SimDisk or as string, faults and restarts from the plan). distinct_nontrivial counts distinct cells (save/load path, "
                   "fault kind, outcome acked/unacked/raised, kinds of calls in the history before the save, zone of the process(es), asset-class set of the "
                   "saved object); a string round trip of a never-used object is trivial")
    agg["simulated_time"] = "%d logical steps (no clock in EAO)" % steps
    agg["distinct_event_log_digests"] = len(digs)
    agg["sample_nontrivial_cells"] = nt[:12]
    agg["samples"] = samples or [{"cells": nt[:5]}]
    return agg
