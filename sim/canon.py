"""Canonical forms of EAO results, tolerant comparison, digests."""
import hashlib
import json
import traceback
import numpy as np
import pandas as pd
import scipy.sparse as sp

RTOL, ATOL = 1e-9, 1e-12


def _arr(a):
    if a is None:
        return None
    return np.asarray(a, dtype=float).ravel()


def canon_mapping(m):
    if m is None:
        return None
    if not isinstance(m, pd.DataFrame):
        return ("notdf", repr(type(m)))
    cols = sorted(str(c) for c in m.columns)
    mm = m.copy()
    mm.columns = [str(c) for c in mm.columns]
    if len(set(mm.columns)) != len(mm.columns):
        return ("dupcols", tuple(mm.columns))
    vals = mm[cols].to_numpy(dtype=object) if len(cols) else np.empty((len(mm), 0), dtype=object)
    idx = mm.index.to_numpy()
    rows = [tuple([_cell(i)] + [_cell(v) for v in row]) for i, row in zip(idx, vals)]
    return (tuple(cols), tuple(rows))


def _cell(v):
    if v is None:
        return None
    if isinstance(v, (bool, np.bool_)):
        return "True" if v else "False"      # a flag is not the number 1 (Python would call them equal)
    if isinstance(v, (int, np.integer)):
        return int(v)
    if isinstance(v, (float, np.floating)):
        if np.isnan(v):
            return "nan"
        return float(v)
    if v is pd.NaT:
        return "nat"
    return str(v)


def canon_op(op):
    """Canonical form of an OptimProblem (or of whatever a set-up call returned)."""
    import eaopack as eao
    if isinstance(op, eao.optimization.SplitOptimProblem):
        return {"kind": "split", "ops": [canon_op(o) for o in op.ops], "mapping": canon_mapping(op.mapping),
                "c": _arr(op.c), "map_nodal_restr": _nodal(op.map_nodal_restr)}
    if isinstance(op, eao.optimization.OptimProblem):
        A = op.A
        if A is not None:
            A = sp.csr_matrix(A)
            A.sum_duplicates()
            A.eliminate_zeros()
            A.sort_indices()
            Ac = (tuple(A.shape), A.indptr.copy(), A.indices.copy(), A.data.copy())
        else:
            Ac = None
        return {"kind": "op", "c": _arr(op.c), "l": _arr(op.l), "u": _arr(op.u), "b": _arr(op.b),
                "cType": None if op.cType is None else str(op.cType), "A": Ac,
                "mapping": canon_mapping(op.mapping), "map_nodal_restr": _nodal(op.map_nodal_restr)}
    if isinstance(op, np.ndarray):
        if op.dtype == object:
            return {"kind": "other", "repr": "objarray:" + ",".join(type(x).__name__ for x in op.ravel())}
        return {"kind": "nd", "v": _arr(op)}
    if isinstance(op, list) and all(isinstance(x, np.ndarray) for x in op):
        if any(x.dtype == object for x in op):
            return {"kind": "other", "repr": "objarrays:" + ";".join(",".join(type(y).__name__ for y in x.ravel()) for x in op)}
        return {"kind": "ndlist", "v": [_arr(x) for x in op]}
    if isinstance(op, pd.DataFrame):
        return {"kind": "df", "cols": [str(c) for c in op.columns], "index": [str(i) for i in op.index],
                "v": _arr(op.values)}
    return {"kind": "other", "repr": repr(type(op))}


def _nodal(m):
    if m is None:
        return None
    return tuple((int(a), str(b)) for a, b in m)


def _cmp_arr(a, b, name, rtol=RTOL, atol=ATOL):
    if a is None or b is None:
        if a is None and b is None:
            return None
        return "%s: one is None" % name
    if a.shape != b.shape:
        return "len(%s) %d != %d" % (name, a.size, b.size)
    ok = np.isclose(a, b, rtol=rtol, atol=atol, equal_nan=True)
    if not ok.all():
        i = int(np.argmin(ok))
        return "%s[%d] %r != %r (%d of %d differ)" % (name, i, float(a[i]), float(b[i]), int((~ok).sum()), a.size)
    return None


def _cmp_cell(x, y, rtol=RTOL, atol=ATOL):
    if isinstance(x, float) and isinstance(y, float):
        return bool(np.isclose(x, y, rtol=rtol, atol=atol))
    if isinstance(x, (int, float)) and isinstance(y, (int, float)) and not isinstance(x, bool) and not isinstance(y, bool):
        return bool(np.isclose(float(x), float(y), rtol=rtol, atol=atol))
    return x == y


def diff_canon(a, b, rtol=RTOL, atol=ATOL):
    """None when equal, otherwise a short description of the first difference."""
    if a["kind"] != b["kind"]:
        return "kind %s != %s" % (a["kind"], b["kind"])
    k = a["kind"]
    if k == "split":
        if len(a["ops"]) != len(b["ops"]):
            return "n intervals %d != %d" % (len(a["ops"]), len(b["ops"]))
        for i, (x, y) in enumerate(zip(a["ops"], b["ops"])):
            d = diff_canon(x, y, rtol, atol)
            if d:
                return "interval %d: %s" % (i, d)
        d = _cmp_map(a["mapping"], b["mapping"], rtol, atol)
        if d:
            return d
        if a["map_nodal_restr"] != b["map_nodal_restr"]:
            return "map_nodal_restr differs"
        return _cmp_arr(a["c"], b["c"], "c", rtol, atol)
    if k == "op":
        for f in ("c", "l", "u", "b"):
            d = _cmp_arr(a[f], b[f], f, rtol, atol)
            if d:
                return d
        if a["cType"] != b["cType"]:
            return "cType differs (%s vs %s)" % (_short(a["cType"]), _short(b["cType"]))
        if (a["A"] is None) != (b["A"] is None):
            return "A: one is None"
        if a["A"] is not None:
            sa, pa, ia, da = a["A"]
            sb, pb, ib, db = b["A"]
            if sa != sb:
                return "A.shape %s != %s" % (sa, sb)
            if not (np.array_equal(pa, pb) and np.array_equal(ia, ib)):
                return "A sparsity pattern differs"
            d = _cmp_arr(da, db, "A.data", rtol, atol)
            if d:
                return d
        d = _cmp_map(a["mapping"], b["mapping"], rtol, atol)
        if d:
            return d
        if a["map_nodal_restr"] != b["map_nodal_restr"]:
            return "map_nodal_restr differs"
        return None
    if k == "nd":
        return _cmp_arr(a["v"], b["v"], "vec", rtol, atol)
    if k == "ndlist":
        if len(a["v"]) != len(b["v"]):
            return "list length differs"
        for i, (x, y) in enumerate(zip(a["v"], b["v"])):
            d = _cmp_arr(x, y, "vec%d" % i, rtol, atol)
            if d:
                return d
        return None
    if k == "df":
        if a["cols"] != b["cols"]:
            return "columns differ"
        if a["index"] != b["index"]:
            return "index differs"
        return _cmp_arr(a["v"], b["v"], "values", rtol, atol)
    if k == "other":
        return None if a["repr"] == b["repr"] else "type differs"
    return None


def _short(s, n=40):
    s = str(s)
    return s if len(s) <= n else s[:n] + "..(%d)" % len(s)


def _cmp_map(ma, mb, rtol, atol):
    if ma is None or mb is None:
        return None if ma is None and mb is None else "mapping: one is None"
    if ma[0] != mb[0]:
        return "mapping columns %s != %s" % (ma[0], mb[0])
    if len(ma[1]) != len(mb[1]):
        return "mapping rows %d != %d" % (len(ma[1]), len(mb[1]))
    for i, (ra, rb) in enumerate(zip(ma[1], mb[1])):
        for x, y in zip(ra, rb):
            if not _cmp_cell(x, y, rtol, atol):
                return "mapping row %d: %r != %r" % (i, ra, rb)
    return None


def digest_canon(c, nd=7):
    """Stable short digest (floats rounded to nd significant decimals, for event logs only)."""
    h = hashlib.sha256()

    def feed(v):
        if isinstance(v, dict):
            for k in sorted(v):
                h.update(str(k).encode())
                feed(v[k])
        elif isinstance(v, (list, tuple)):
            h.update(b"[")
            for x in v:
                feed(x)
            h.update(b"]")
        elif isinstance(v, np.ndarray):
            if v.dtype.kind == "f":
                h.update(np.round(v + 0.0, nd).astype(np.float64).tobytes())
            else:
                h.update(np.ascontiguousarray(v).tobytes())
        elif isinstance(v, float):
            h.update(repr(round(v + 0.0, nd)).encode())
        else:
            h.update(repr(v).encode())
    feed(c)
    return h.hexdigest()[:16]


def exc_sig(e):
    """(type name, innermost eaopack frame 'file:function') of an exception."""
    tb = traceback.extract_tb(e.__traceback__)
    frame = None
    for fr in tb:
        fn = fr.filename.replace("\\", "/")
        if "/eaopack/" in fn:
            frame = "%s:%s" % (fn.rsplit("/", 1)[1], fr.name)
    return (type(e).__name__, frame)


def jdump(o):
    return json.dumps(o, sort_keys=True, default=_jd)


def _jd(o):
    if isinstance(o, np.ndarray):
        return o.tolist()
    if isinstance(o, (np.integer,)):
        return int(o)
    if isinstance(o, (np.floating,)):
        return float(o)
    if isinstance(o, (np.bool_,)):
        return bool(o)
    if isinstance(o, tuple):
        return list(o)
    return repr(o)
