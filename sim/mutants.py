"""Planted mutants for the sensitivity self-test: each is a textual edit of the working tree that
breaks one property while the code still imports.  (file, old, new) - `old` must occur exactly once."""

P = "eaopack/portfolio.py"
B = "eaopack/basic_classes.py"
A = "eaopack/assets.py"
O = "eaopack/optimization.py"
S = "eaopack/serialization.py"

MUTANTS = {
    "C15": [
        ("date-mask-inverted", P, "(self.timegrid.timepoints<= pd.Timestamp(fix_time_window['I']))",
         "(self.timegrid.timepoints>= pd.Timestamp(fix_time_window['I']))"),
        ("date-mask-strict", P, "(self.timegrid.timepoints<= pd.Timestamp(fix_time_window['I']))",
         "(self.timegrid.timepoints< pd.Timestamp(fix_time_window['I']))"),
        ("fix-lower-bound-only", P, "            l[I] = fix_time_window['x'][I]\n            u[I] = fix_time_window['x'][I]",
         "            l[I] = fix_time_window['x'][I]"),
        ("isin-mask-instead-of-steps", P, "mapping['time_step'].isin(self.timegrid.I[fix_time_window['I']])",
         "mapping['time_step'].isin(np.asarray(fix_time_window['I']))"),
        ("skip-when-x-longer", P, "            if len(fix_time_window['x']) > n_vars:\n                fix_time_window['x'] = fix_time_window['x'][0:n_vars]",
         "            if len(fix_time_window['x']) > n_vars:\n                return OptimProblem(c = c, l = l, u = u, A = A, b = b, cType = cType, mapping = mapping, map_nodal_restr = map_nodal_restr)"),
        ("row-position-instead-of-variable", P,
         "I = mapping.index[mapping['time_step'].isin(self.timegrid.I[fix_time_window['I']])].unique()",
         "I = np.where(mapping['time_step'].isin(self.timegrid.I[fix_time_window['I']]).values)[0]; I = I[I<n_vars]"),
        ("first-row-only", P,
         "I = mapping.index[mapping['time_step'].isin(self.timegrid.I[fix_time_window['I']])].unique()",
         "mm = mapping[~mapping.index.duplicated(keep='first')]; I = mm.index[mm['time_step'].isin(self.timegrid.I[fix_time_window['I']])].unique()"),
        ("split-window-values-not-sliced", P, "fix_tmp['x'] = np.asarray(fix_tmp['x'])[len_res:]", "fix_tmp['x'] = np.asarray(fix_tmp['x'])"),
        ("split-window-steps-by-interval-position", P, "fix_tmp['I'] = np.isin(tmp_I, timegrid.I[fix_tmp['I']])",
         "fix_tmp['I'] = np.isin(timegrid_tmp.I, timegrid.I[fix_tmp['I']])"),
        ("values-by-position", P, "            l[I] = fix_time_window['x'][I]\n            u[I] = fix_time_window['x'][I]",
         "            l[I] = fix_time_window['x'][0:len(I)]\n            u[I] = fix_time_window['x'][0:len(I)]"),
    ],
    "C10": [
        ("cache-restricted-per-window", B,
         "        if start is None: start = self.start\n        if end   is None: end   = self.end\n        if freq is None: # standard case",
         "        if start is None: start = self.start\n        if end   is None: end   = self.end\n"
         "        key = (str(start), str(end), str(freq))\n        if not hasattr(self, '_rcache'): self._rcache = {}\n"
         "        if key in self._rcache:\n            self.restricted = self._rcache[key]\n            return\n"
         "        self._rcache[key] = None\n"
         "        if freq is None: # standard case"),
        ("memoise-make-vector", A,
         ["        I = self.timegrid.restricted.I  # indices of restricted time grid\n        T = self.timegrid.restricted.T\n        if value is None:\n            return value",
          "        if convert:\n            vec = vec * self.timegrid.restricted.dt\n        return vec"],
         ["        I = self.timegrid.restricted.I  # indices of restricted time grid\n        T = self.timegrid.restricted.T\n        if value is None:\n            return value\n"
          "        if isinstance(value, dict) and hasattr(self, '_mv') and (id(value), convert) in self._mv: return self._mv[(id(value), convert)].copy()",
          "        if convert:\n            vec = vec * self.timegrid.restricted.dt\n        if isinstance(value, dict): self.__dict__.setdefault('_mv', {})[(id(value), convert)] = vec.copy()\n        return vec"]),
        ("negate-take-in-place", A,
         "            my_take = max_take.copy() # need to alter\n            my_take['values'] = -np.asarray(my_take['values'])",
         "            my_take = max_take # need to alter\n            my_take['values'] = -np.asarray(my_take['values'])"),
        ("scale-price-in-place", A,
         "            price = prices[self.price].copy()\n            # convert to array",
         "            price = prices[self.price]\n            price *= 1.0001\n            # convert to array"),
        ("no-restore-after-split", P,
         "        op = SplitOptimProblem(ops, mapping)\n        self.set_timegrid(timegrid)\n        for a in self.assets:\n            a.set_timegrid(timegrid)",
         "        op = SplitOptimProblem(ops, mapping)\n        self.set_timegrid(timegrid)"),
        ("keep-discount-factors", B,
         "        d = (1.+wacc)**(1./365.) # convert interest rate to daily",
         "        if hasattr(self, 'discount_factors') and len(self.discount_factors) == self.T: return\n        d = (1.+wacc)**(1./365.) # convert interest rate to daily"),
        ("module-level-cache-by-asset-name", A,
         ["class Asset:\n", "        I = self.timegrid.restricted.I  # indices of restricted time grid\n        T = self.timegrid.restricted.T\n        if value is None:\n            return value"],
         ["class Asset:\n    _vec_cache = {}\n", "        I = self.timegrid.restricted.I  # indices of restricted time grid\n        T = self.timegrid.restricted.T\n        if value is None:\n            return value\n"
          "        if isinstance(value, (float, int)):\n            _k = (self.name, T, convert)\n            if _k in Asset._vec_cache: return Asset._vec_cache[_k].copy()\n"
          "            Asset._vec_cache[_k] = (value * np.ones(T)) * (self.timegrid.restricted.dt if convert else 1.)\n            return Asset._vec_cache[_k].copy()"]),
        ("mutable-default-skip-nodes-accumulates", P,
         "        if len(skip_nodes) == 0:\n            my_skip_nodes = None\n        else:\n            my_skip_nodes = skip_nodes",
         "        if len(self.nodes) > 1: skip_nodes.append(list(self.nodes.keys())[-1] + '_x' * (len(skip_nodes) % 2))\n        if len(skip_nodes) < 3:\n            my_skip_nodes = None\n        else:\n            my_skip_nodes = [n[:-2] if n.endswith('_x') else n for n in skip_nodes]"),
        ("revert-H1-copy", B, "        inp = inp.copy() # normalize a copy, the caller's dict (e.g. an asset parameter) must stay as given\n", ""),
        ("revert-H4-restore", P, "                a.start = a_start\n                a.end   = a_end", "                pass"),
    ],
    "C11": [
        ("drop-tz-on-write", S, "            mytz = str(obj.tzinfo)\n", "            mytz = None\n"),
        ("minutes-only", S, "'__value__' : obj.strftime(\"%Y-%m-%d %H:%M:%S\")", "'__value__' : obj.strftime(\"%Y-%m-%d %H:00:00\")"),
        ("orderbook-full-exec-lost", S, "        if res['asset_type'] == 'OrderBook': # some parameters not relevant\n",
         "        if res['asset_type'] == 'OrderBook': # some parameters not relevant\n            res['full_exec'] = False\n"),
        ("forget-is-date", S, "        res['is_date'] = np.issubdtype(obj.dtype, np.datetime64)", "        res['is_date'] = False"),
        ("no-portfolio-grid", S, "            if 'timegrid' in obj:\n                res.set_timegrid(obj['timegrid'])", "            pass"),
        ("int-arrays-become-float", S, "            res = np.asarray(obj['np_list'])",
         "            res = np.asarray(obj['np_list'])\n            if res.dtype.kind in 'iub': res = res.astype(float)"),
        ("swap-grid-start-end-freq", S, "               'main_time_unit'     : obj.__dict__['main_time_unit']",
         "               'main_time_unit'     : 'h'"),
    ],
    "C03": [
        ("L-rows-as-U", O, "constraints = constraints + [ AL @ x>=bL ]", "constraints = constraints + [ AL @ x<=bL ]"),
        ("drop-S-block", O, "                    constraints = constraints + [ AS @ x==bS ]", "                    pass"),
        ("N-rows-as-U", O, "constraints = constraints + [ AN @ x==bN ]", "constraints = constraints + [ AN @ x<=bN ]"),
        ("accept-inaccurate", O, "            if prob.status == 'optimal':\n", "            if prob.status in ('optimal', 'optimal_inaccurate'):\n"),
        ("results-on-any-status", O, "            if prob.status == 'optimal':\n", "            if x.value is not None:\n"),
        ("lose-bools-after-dedup", O, "my_bools = map.loc[(~map.index.duplicated(keep='first')) & (map['bool'])].index.values.tolist()",
         "my_bools = map.loc[(~map.index.duplicated(keep=False)) & (map['bool'])].index.values.tolist()"),
        ("split-skip-failed", O, "            res_tmp = op.optimize(*args, **kwargs)\n",
         "            res_tmp = op.optimize(*args, **kwargs)\n            if isinstance(res_tmp, str):\n                res.x = np.hstack((res.x, np.zeros(len(op.c))))\n                continue\n"),
        ("robust-sign", O, "                    results.value = -sum(x.value * self.c)", "                    results.value = sum(x.value * self.c)"),
        ("tiny-values-zeroed-after-solve", O, "                results = Results(value       = prob.value,\n                                  x           = x.value,",
         "                results = Results(value       = prob.value,\n                                  x           = np.where(np.abs(x.value) < 0.05, 0., x.value),"),
        ("eao-sets-iteration-limit", O, "                prob.solve(solver = getattr(CVX, solver))",
         "                prob.solve(solver = getattr(CVX, solver), **({'scipy_options': {'maxiter': 3}} if solver == 'SCIPY' else {'max_iter': 3} if solver == 'CLARABEL' else {}))"),
        ("upper-bound-dropped", O, "            constraints = [ x <= self.u, x>=self.l ]", "            constraints = [ x <= self.u + 1e-3*(np.abs(self.u)+1), x>=self.l ]"),
    ],
}
