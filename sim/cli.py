import sys


def main():
    if len(sys.argv) < 2:
        print("usage: check <C03|C10|C11|C15|selftest> [options]")
        return 2
    what = sys.argv[1]
    if what == "selftest":
        from sim import selftest
        return selftest.main(sys.argv[2:])
    from sim import core
    if what == "exec-plan":
        return core.exec_plan_main(sys.argv[2:])
    try:
        return core.main_check(what, sys.argv[2:])
    except core.HarnessError as e:
        print("HARNESS-ERROR: %s" % e)
        return 2


if __name__ == "__main__":
    sys.exit(main())
