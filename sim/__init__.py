"""Deterministic simulation harness for EAO (see /verif/DESIGN.md)."""
