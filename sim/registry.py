"""Property id -> module implementing gen_plan / execute / aggregate."""
import importlib

MODULES = {"C03": "sim.c03", "C10": "sim.c10", "C11": "sim.c11", "C15": "sim.c15"}


def get(prop):
    return importlib.import_module(MODULES[prop])
