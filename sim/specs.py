"""World specs: pure JSON descriptions of EAO objects, generators for them, and a builder
that turns a spec into brand-new EAO objects (independent of eaopack.serialization).

A *world* is a JSON document:
  grids      {gid: {start,end,freq,mtu,tz}}
  nodes      {nid: {name, commodity, unit}}
  dicts      {did: tagged interval dict}               (parameter dicts shared between assets)
  prices     {pid: {form, grid, cols, ...}}
  assets     {aid: {cls, kw}}
  portfolios {Pid: {assets:[aid..]}}
Everything executable is derived from it by `Builder`; one Builder instance is one universe of
Python objects (the long-lived "system" universe, or a throw-away "fresh twin").
"""
import datetime as dt
import copy
import numpy as np
import pandas as pd

import eaopack as eao

H6 = pd.Timedelta(hours=6)

# --------------------------------------------------------------------------- tagged values


def iso(ts):
    return pd.Timestamp(ts).strftime("%Y-%m-%dT%H:%M:%S")


def t_date(ts):
    return {"$t": "date", "v": pd.Timestamp(ts).strftime("%Y-%m-%d")}


def t_datetime(ts, tz=None):
    return {"$t": "datetime", "v": iso(ts), "tz": tz}


def t_ts(ts, tz=None):
    return {"$t": "ts", "v": iso(ts), "tz": tz}


def t_nd(vals):
    return {"$t": "nd", "v": [float(x) for x in vals]}


def mat(v, B=None):
    """Materialise a tagged JSON value into Python / numpy / pandas / EAO objects."""
    if isinstance(v, dict):
        if "$t" in v:
            t = v["$t"]
            if t == "date":
                return dt.date.fromisoformat(v["v"])
            if t == "datetime":
                if v.get("zi") and v.get("tz") and not v.get("conv"):
                    from zoneinfo import ZoneInfo   # zone-aware without pytz: datetime with a zoneinfo tzinfo
                    return pd.Timestamp(v["v"]).to_pydatetime().replace(tzinfo=ZoneInfo(v["tz"]))
                ts = pd.Timestamp(v["v"], tz=v.get("tz"))
                if v.get("conv"):
                    if v.get("zi"):
                        from zoneinfo import ZoneInfo
                        return ts.tz_convert(ZoneInfo(v["conv"])).to_pydatetime()   # zone-aware through zoneinfo, not pytz
                    ts = ts.tz_convert(v["conv"])
                return ts.to_pydatetime()
            if t == "fl":
                return float(v["v"])          # "inf" / "-inf" / "nan" (kept as text so that plans stay strict JSON)
            if t == "np_int":
                return np.int64(v["v"])
            if t == "np_bool":
                return np.bool_(v["v"])
            if t == "ts":
                ts = pd.Timestamp(v["v"], tz=v.get("tz"))
                if v.get("conv"):
                    ts = ts.tz_convert(v["conv"])   # instant stored as UTC, handed over in zone 'conv' (DST-safe)
                return ts
            if t == "nd":
                return np.array(v["v"], dtype=float)
            if t == "nd32":
                return np.array(v["v"], dtype=np.float32)   # single precision array
            if t == "nd_int":
                return np.array(v["v"], dtype=int)
            if t == "nd_bool":
                return np.array(v["v"], dtype=bool)
            if t == "nd_dt":
                return np.array([np.datetime64(x, v.get("unit", "ns")) for x in v["v"]])
            if t == "dti":
                return pd.DatetimeIndex(v["v"], tz=v.get("tz"), freq=v.get("freq"))
            if t == "nd_obj":
                return np.array([pd.Timestamp(x, tz=v.get("tz")) for x in v["v"]], dtype=object)
            if t == "sev":
                return {k: mat(x, B) for k, x in v["d"].items()}
            if t == "tuple":
                return tuple(mat(x, B) for x in v["v"])
            if t == "orders_df":
                d = {k: mat(x, B) for k, x in v["d"].items()}
                return pd.DataFrame(d)
            raise ValueError("unknown tag " + t)
        if "$node" in v:
            return B.node(v["$node"])
        if "$dict" in v:
            return B.shared_dict(v["$dict"])
        if "$asset" in v:
            return B.asset(v["$asset"])
        if "$portf" in v:
            return B.portfolio(v["$portf"])
        return {k: mat(x, B) for k, x in v.items()}
    if isinstance(v, list):
        return [mat(x, B) for x in v]
    return v


# --------------------------------------------------------------------------- builder

ASSET_CLASSES = {
    "SimpleContract": lambda: eao.assets.SimpleContract,
    "Contract": lambda: eao.assets.Contract,
    "Transport": lambda: eao.assets.Transport,
    "ExtendedTransport": lambda: eao.assets.ExtendedTransport,
    "MultiCommodityContract": lambda: eao.assets.MultiCommodityContract,
    "Storage": lambda: eao.assets.Storage,
    "CHPAsset": lambda: eao.assets.CHPAsset,
    "CHPAsset_with_min_load_costs": lambda: eao.assets.CHPAsset_with_min_load_costs,
    "Plant": lambda: eao.assets.Plant,
    "OrderBook": lambda: eao.assets.OrderBook,
    "ScaledAsset": lambda: eao.assets.ScaledAsset,
    "StructuredAsset": lambda: eao.portfolio.StructuredAsset,
    "LinkedAsset": lambda: eao.portfolio.LinkedAsset,
}


class Builder:
    """One universe of Python objects built from a world spec (memoised per id)."""

    def __init__(self, world):
        self.w = world
        self._n, self._d, self._a, self._p, self._g, self._pr = {}, {}, {}, {}, {}, {}

    def node(self, nid):
        if nid not in self._n:
            s = self.w["nodes"][nid]
            kw = {"name": s["name"]}
            if s.get("commodity") is not None:
                kw["commodity"] = s["commodity"]
            if s.get("unit") is not None:
                kw["unit"] = eao.assets.Unit(volume=s["unit"]["volume"], flow=s["unit"]["flow"], factor=1.)
            self._n[nid] = eao.assets.Node(**kw)
        return self._n[nid]

    def grid(self, gid):
        if gid not in self._g:
            self._g[gid] = build_grid(self.w["grids"][gid])
        return self._g[gid]

    def shared_dict(self, did):
        if did not in self._d:
            self._d[did] = mat(self.w["dicts"][did], self)
        return self._d[did]

    def asset(self, aid):
        if aid not in self._a:
            s = self.w["assets"][aid]
            cls = ASSET_CLASSES[s["cls"]]()
            kw = {k: mat(v, self) for k, v in s["kw"].items()}
            self._a[aid] = cls(**kw)
        return self._a[aid]

    def portfolio(self, pid):
        if pid not in self._p:
            s = self.w["portfolios"][pid]
            p = eao.Portfolio([self.asset(a) for a in s["assets"]])
            if s.get("grid") is not None:
                p.set_timegrid(self.grid(s["grid"]))
            self._p[pid] = p
        return self._p[pid]

    def prices(self, pid):
        if pid not in self._pr:
            self._pr[pid] = build_prices(self.w["prices"][pid], self)
            for u in getattr(self, "price_updates", {}).get(pid, []):
                apply_price_update(self._pr[pid], *u)
        return self._pr[pid]

    def obj(self, oid):
        k = oid[0]
        if k == "a":
            return self.asset(oid)
        if k == "P":
            return self.portfolio(oid)
        if k == "g":
            return self.grid(oid)
        if k == "d":
            return self.shared_dict(oid)
        if k == "p":
            return self.prices(oid)
        raise KeyError(oid)


def build_grid(s):
    return eao.assets.Timegrid(mat(s["start"]), mat(s["end"]), freq=s["freq"],
                               main_time_unit=s["mtu"], timezone=s.get("tz"))


def bump_attr(a, attr):
    """A new, usually still valid value for one scalar attribute of a live asset (None: leave it alone)."""
    v = getattr(a, attr, None)
    if attr == "price" and isinstance(v, str) and v in PRICE_KEYS:
        return PRICE_KEYS[(PRICE_KEYS.index(v) + 1) % len(PRICE_KEYS)]
    if isinstance(v, bool) or not isinstance(v, (int, float)):
        return None
    if attr == "efficiency":
        return 0.85 if v != 0.85 else 0.95
    if attr in ("time_back", "time_forward", "asset2_time_already_running"):
        return v + 1
    if attr == "time_already_running":
        return None if getattr(a, "time_already_off", 0) != 0 else v + 1
    return round(float(v) + 0.5, 3)


def apply_price_update(pr, key, mul, add, style="assign"):
    """The user writes new quotes into a price container: a new array under the key, or new numbers into the array."""
    if style == "inplace" and isinstance(pr, dict):
        pr[key][:] = pr[key] * mul + add
    else:
        pr[key] = pr[key] * mul + add


def build_prices(s, B):
    form = s["form"]
    cols = {k: np.array(v, dtype=float) for k, v in s["cols"].items()}
    if form == "dict_nd":
        return cols
    if form == "df_num":
        return pd.DataFrame(cols)
    if form == "df_dti":
        idx = pd.DatetimeIndex(s["index"], tz=s.get("tz"))
        return pd.DataFrame(cols, index=idx)
    if form == "empty_list":
        return []
    if form == "none":
        return None
    raise ValueError(form)


# --------------------------------------------------------------------------- generators

TZS = [None, None, None, "UTC", "CET", "CET", "US/Eastern"]
BASES = {
    None: ["2021-01-04", "2021-06-14", "2021-03-27", "2022-02-26"],
    "UTC": ["2021-01-04", "2021-06-14", "2021-03-27"],
    "CET": ["2021-01-04", "2021-06-14", "2021-03-27", "2021-10-30"],
    "US/Eastern": ["2021-01-04", "2021-06-14", "2021-03-13", "2021-11-06"],
}
FREQ_TD = {"15min": pd.Timedelta(minutes=15), "h": pd.Timedelta(hours=1),
           "4h": pd.Timedelta(hours=4), "d": pd.Timedelta(days=1)}
FREQ_T = {"15min": [8, 16, 24, 48, 96], "h": [6, 12, 24, 36, 48, 72], "4h": [6, 12, 18, 24], "d": [4, 5, 7, 10, 14]}

CAL_FREQS = ("MS", "W-MON")
PRICE_KEYS = ["pr0", "pr1", "pr2"]
CAP_KEYS = ("cap_lo", "cap_hi")


class Env:
    """Generation context of one world: universe [U0,U1), zone policy, ids."""

    def __init__(self, rng, max_T=72, mip_T=24, tzs=None, freqs=None):
        self.rng = rng
        self.max_T = max_T
        self.tz = rng.choice(tzs if tzs is not None else TZS)
        self.base = pd.Timestamp(rng.choice(BASES[self.tz]))
        self.freqs = freqs
        self.U0 = self.base
        self.U1 = self.base + pd.Timedelta(days=3)
        # representation of dates in asset parameters
        self.param_tz = self.tz if (self.tz is not None and rng.random() < 0.3) else None
        self.world = {"grids": {}, "nodes": {}, "dicts": {}, "prices": {}, "assets": {}, "portfolios": {}}
        self.counter = {}
        # one representation for all asset windows of a world (EAO compares them with each other)
        self.window_kind = rng.choice(["date", "datetime", "ts"]) if self.param_tz is None else rng.choice(["datetime", "ts"])
        self.min_span = None
        self.allow_date_only_zone = False
        # swarm style: every world emphasises one feature family (or none), so that rare features meet each other
        self.emph = rng.choice([None, None, None, "coarse", "periodic", "chp", "orderbook", "scaled", "structured", "contract",
                                "storage", "transport", "windows", "shared", "linked"])
        if self.emph == "coarse":
            self.coarse_p = 0.7
        if self.emph == "periodic":
            self.periodic_p = 0.7
        if self.emph == "chp":
            self.ramp_p = 0.6
        self.name_family = rng.choice(["gas", "7", "n", "x_"]) if rng.random() < 0.15 else None

    def new_id(self, prefix):
        n = self.counter.get(prefix, 0)
        self.counter[prefix] = n + 1
        return "%s%d" % (prefix, n)

    # -- dates
    def tag_date(self, ts, tz="param", allow_date=True, kind=None, zi=None):
        rng = self.rng
        ts = pd.Timestamp(ts)
        if tz == "param":
            tz = self.param_tz
        if kind is None:
            r = rng.random()
            kind = "date" if r < 0.3 else ("datetime" if r < 0.65 else "ts")
        if kind == "date" and allow_date and tz is None and ts == ts.normalize():
            return t_date(ts)
        if kind in ("date", "datetime"):
            d = t_datetime(ts, tz)
            if tz is not None and (rng.random() < 0.3 if zi is None else zi):
                d["zi"] = True
            return d
        return t_ts(ts, tz)

    def rand_point(self, lo=None, hi=None, step=H6):
        lo = self.U0 if lo is None else lo
        hi = self.U1 if hi is None else hi
        n = max(int((hi - lo) / step), 1)
        return lo + step * self.rng.randint(0, n)


def gen_grid(env, gid=None, freq=None, T=None, tz="env", start_shift=True, mtu=None):
    rng = env.rng
    if freq is None:
        freq = rng.choice(env.freqs or ["h", "h", "h", "4h", "d", "15min"])
    if freq in CAL_FREQS:
        # calendar grids: steps of unequal length (months) or anchored weeks
        T = T if (T is not None and T <= 6) else rng.choice([2, 3, 4])
        if freq == "MS":
            start = env.base.replace(day=1)
            end = start + pd.DateOffset(months=T)
        else:
            start = env.base - pd.Timedelta(days=env.base.weekday())     # a Monday
            end = start + pd.Timedelta(weeks=T)
        if tz == "env":
            tz = env.tz
        if mtu is None:
            mtu = rng.choice(["h", "d", "d"])
        g = {"start": env.tag_date(start, tz=None), "end": env.tag_date(end, tz=None), "freq": freq, "mtu": mtu, "tz": tz}
        gid = gid or env.new_id("g")
        env.world["grids"][gid] = g
        env.U0 = min(env.U0, start)
        env.U1 = max(env.U1, pd.Timestamp(end))
        span = pd.Timestamp(end) - start
        env.min_span = span if env.min_span is None else min(env.min_span, span)
        return gid
    Ts = [t for t in FREQ_T[freq] if t <= env.max_T] or [min(FREQ_T[freq])]
    if T is None:
        T = rng.choice(Ts)
    step = pd.Timedelta(days=1) if freq == "d" else H6
    start = env.base + (step * rng.randint(0, 3) if start_shift else pd.Timedelta(0))
    end = start + FREQ_TD[freq] * T
    if tz == "env":
        tz = env.tz
    if mtu is None:
        mtu = rng.choice(["h", "h", "h", "d", "min"])
    # representation of start/end handed to Timegrid
    aware = tz is not None and rng.random() < 0.25
    g = {"start": env.tag_date(start, tz=(tz if aware else None)),
         "end": env.tag_date(end, tz=(tz if aware else None)),
         "freq": freq, "mtu": mtu, "tz": tz}
    g["start"].pop("zi", None)   # pandas refuses to mix a zoneinfo CET with its own CET in one date_range
    g["end"].pop("zi", None)
    if tz is not None and env.allow_date_only_zone and rng.random() < 0.2:
        # zone-aware only through its dates: Timegrid(aware, aware) without a timezone argument.  Start may sit in
        # the repeated / skipped DST hour, so the instants are stored as UTC and converted when materialised
        s_i = pd.Timestamp(start, tz=tz).tz_convert("UTC") if start.hour % 6 == 0 else None
        shift = pd.Timedelta(hours=rng.choice([0, 0, 1, 2, 3])) if freq in ("h", "15min") else pd.Timedelta(0)
        s_utc = (pd.Timestamp(start, tz=tz).tz_convert("UTC") + shift)
        e_utc = (pd.Timestamp(end, tz=tz).tz_convert("UTC") + shift)
        kind = rng.choice(["ts", "datetime", "datetime"])
        g = {"start": {"$t": kind, "v": iso(s_utc.tz_localize(None)), "tz": "UTC", "conv": tz},
             "end": {"$t": kind, "v": iso(e_utc.tz_localize(None)), "tz": "UTC", "conv": tz},
             "freq": freq, "mtu": mtu, "tz": None, "date_zone": tz}
        if kind == "datetime" and rng.random() < 0.5:
            g["start"]["zi"] = True     # both ends carry a zoneinfo tzinfo (pandas would map a zone *string* to pytz)
            g["end"]["zi"] = True
        env.param_tz = tz           # such a grid only accepts zone-aware interval data and windows
        if env.window_kind == "date":
            env.window_kind = "ts"
    gid = gid or env.new_id("g")
    env.world["grids"][gid] = g
    env.U0 = min(env.U0, start)
    env.U1 = max(env.U1, end)
    env.min_span = (end - start) if env.min_span is None else min(env.min_span, end - start)
    return gid


def grid_info(world, gid):
    """(T, timepoints) of a grid spec - computed with the real Timegrid class."""
    g = build_grid(world["grids"][gid])
    return g


def gen_nodes(env, n):
    rng = env.rng
    names = ["n0", "n1", "n2", "n3", "1", "n1_b", "heat", "n"]
    rng.shuffle(names)
    out = []
    for i in range(n):
        nid = env.new_id("n")
        s = {"name": names[i], "commodity": rng.choice([None, None, "power", "gas"]), "unit": None}
        if rng.random() < 0.15:
            s["unit"] = {"volume": "MJ", "flow": "kW"}
        env.world["nodes"][nid] = s
        out.append(nid)
    return out


def gen_prices(env, gid, form=None, missing_key=False, pid=None):
    """A price table matching grid gid."""
    rng = env.rng
    g = grid_info(env.world, gid)
    T = g.T
    if form is None:
        form = rng.choice(["dict_nd", "dict_nd", "dict_nd", "df_dti", "df_num"])
    style = rng.choice(["rand", "rand", "const", "ties", "sin"])
    cols = {}
    for k in PRICE_KEYS:
        if style == "rand":
            v = [round(rng.uniform(-20, 120), 2) for _ in range(T)]
        elif style == "const":
            c = round(rng.uniform(5, 80), 1)
            v = [c] * T
        elif style == "ties":
            v = [float(rng.choice([10, 20, 30, 40])) for _ in range(T)]
        else:
            ph = rng.uniform(0, 6)
            v = [round(50 + 40 * float(np.sin(ph + i / 3.0)), 3) for i in range(T)]
        cols[k] = v
    cols["cap_lo"] = [round(rng.uniform(-8, 0), 2) for _ in range(T)]
    cols["cap_hi"] = [round(rng.uniform(0.5, 9), 2) for _ in range(T)]
    cols["ec"] = [round(rng.uniform(0, 3), 2) for _ in range(T)]
    if missing_key:
        del cols[rng.choice(PRICE_KEYS)]
    s = {"form": form, "grid": gid, "cols": cols}
    if form == "df_dti":
        s["index"] = [iso(t.tz_localize(None) if t.tzinfo is not None else t) for t in g.timepoints]
        # wall-clock strings are ambiguous at DST fold: store UTC instants for aware grids
        if g.timepoints.tz is not None:
            s["index"] = [iso(t.tz_convert("UTC").tz_localize(None)) for t in g.timepoints]
            s["tz"] = "UTC"
    pid = pid or env.new_id("p")
    env.world["prices"][pid] = s
    return pid


# ---- interval dicts

def gen_breaks(env, k=None, cover=True, lo=None, hi=None):
    """k contiguous intervals covering [U0,U1) (or a random part of it when cover=False)."""
    rng = env.rng
    lo = env.U0 - pd.Timedelta(days=1) if lo is None else lo
    hi = env.U1 + pd.Timedelta(days=1) if hi is None else hi
    if k is None:
        k = rng.choice([1, 1, 2, 2, 3, 4])
    inner = sorted({env.rand_point() for _ in range(k - 1)})
    if rng.random() < 0.2:
        # boundaries off the 6h raster: half hours and odd seconds (the JSON format keeps seconds)
        off = rng.choice([pd.Timedelta(minutes=30), pd.Timedelta(seconds=30), pd.Timedelta(minutes=45, seconds=15)])
        inner = sorted({p + off for p in inner})
    inner = [p for p in inner if lo < p < hi]
    pts = [lo] + inner + [hi]
    if not cover and len(pts) > 2 and rng.random() < 0.5:
        pts = pts[1:]
    return pts


def tag_seq(env, pts, form, tz="param"):
    """Represent a list of time points in one of the accepted container forms."""
    if tz == "param":
        tz = env.param_tz
    if form == "list":
        kind = env.rng.choice(["date", "datetime", "ts"])
        if kind == "date" and not (tz is None and all(pd.Timestamp(p) == pd.Timestamp(p).normalize() for p in pts)):
            kind = "datetime"
        zi = env.rng.random() < 0.3   # one tzinfo flavour per sequence (pandas cannot mix zoneinfo and pytz in one list)
        return [env.tag_date(p, tz=tz, kind=kind, zi=zi) for p in pts]
    if form == "nd_dt":
        d = {"$t": "nd_dt", "v": [iso(p) for p in pts]}  # datetime64 is naive by nature
        r = env.rng.random()
        if r < 0.25 and all(pd.Timestamp(p) == pd.Timestamp(p).normalize() for p in pts):
            d["unit"] = "D"
        elif r < 0.4 and all(pd.Timestamp(p).minute == 0 and pd.Timestamp(p).second == 0 for p in pts):
            d["unit"] = "h"
        elif r < 0.55:
            d["unit"] = "s"
        return d
    if form == "dti":
        return {"$t": "dti", "v": [iso(p) for p in pts], "tz": tz}
    if form == "nd_obj":
        return {"$t": "nd_obj", "v": [iso(p) for p in pts], "tz": tz}  # numpy object array of (aware) Timestamps
    if form == "scalar":
        assert len(pts) == 1
        return env.tag_date(pts[0], tz=tz)
    raise ValueError(form)


def gen_sev(env, values_fn, k=None, with_end=None, cover=True, forms=None):
    """Interval dict {start,(end),values}; values_fn(i) gives the i-th value."""
    rng = env.rng
    pts = gen_breaks(env, k=k, cover=cover)
    n = len(pts) - 1
    starts, ends = pts[:-1], pts[1:]
    vals = [values_fn(i) for i in range(n)]
    if with_end is None:
        with_end = rng.random() < 0.6
    if not with_end and n >= 2 and cover and starts[-1] + 2 * (starts[-1] - starts[-2]) < env.U1:
        with_end = True
    if not with_end and n == 1 and env.tz == "US/Eastern":
        with_end = True  # EAO's open-ended default (Timestamp.max) overflows when localised west of UTC
    form = rng.choice(forms or (["list", "list", "nd_dt", "dti", "nd_obj"] + (["scalar"] if n == 1 else [])))
    if form == "nd_dt" and env.param_tz is not None:
        form = "nd_obj"
    d = {"start": tag_seq(env, starts, form)}
    if with_end:
        d["end"] = tag_seq(env, ends, form)
    if form == "scalar":
        d["values"] = vals[0]
    else:
        d["values"] = value_form(rng, vals)
    return {"$t": "sev", "d": d}


def value_form(rng, vals):
    """list of floats, float array, or - when the numbers are whole - list of ints / integer array"""
    r = rng.random()
    if r < 0.45:
        return vals
    if r < 0.65:
        return t_nd(vals)
    if r < 0.75:
        return {"$t": "nd32", "v": [float(v) for v in vals]}
    ints = [int(round(v)) for v in vals]
    if all(i != 0 for i in ints) or all(v == 0 for v in vals):
        return ints if r < 0.85 else {"$t": "nd_int", "v": ints}
    return vals


def maybe_shared(env, sev, p=0.25):
    """Register an interval dict in the shared pool with probability p and return a reference."""
    if getattr(env, "emph", None) == "shared":
        p = max(p, 0.7)
    if env.rng.random() < p:
        did = env.new_id("d")
        env.world["dicts"][did] = sev
        return {"$dict": did}
    return sev


def pick_shared(env, kind):
    """Reuse an existing shared dict of the given kind (the *same object* in two assets)."""
    cands = [d for d, k in env.world.get("_dict_kind", {}).items() if k == kind]
    if cands and env.rng.random() < 0.5:
        return {"$dict": env.rng.choice(cands)}
    return None


def reg_kind(env, ref, kind):
    if isinstance(ref, dict) and "$dict" in ref:
        env.world.setdefault("_dict_kind", {})[ref["$dict"]] = kind


def gen_vec(env, lo, hi, kind, str_key=None, p_scalar=0.55, p_str=0.1, nd=2, share=0.25):
    """Parameter of type Union[float, StartEndValueDict, str]."""
    rng = env.rng
    r = rng.random()
    if getattr(env, "arr_T", None) and rng.random() < 0.45:
        # a plain array with one value per step (fits every grid with that many steps), or a single value as an array
        k = env.arr_T if rng.random() < 0.75 else 1
        return {"$t": "nd", "v": [round(rng.uniform(lo, hi), nd) for _ in range(k)]}
    if r < p_scalar:
        return round(rng.uniform(lo, hi), nd)
    if str_key is not None and r < p_scalar + p_str:
        return str_key
    ref = pick_shared(env, kind)
    if ref is not None:
        return ref
    sev = gen_sev(env, lambda i: round(rng.uniform(lo, hi), nd))
    if getattr(env, "special_floats", False) and kind in ("ec", "sc", "rc", "cf", "sh") and rng.random() < 0.3:
        # "not specified here, use the default": NaN in the values of an interval dict (these parameters have defaults)
        vals_ = sev["d"]["values"]
        vals_ = vals_ if isinstance(vals_, list) else (vals_["v"] if isinstance(vals_, dict) else None)
        if vals_ is not None and len(vals_) >= 2:
            sev["d"]["values"] = {"$t": "nd", "v": [None] + [float(x) for x in vals_[1:]]}
    out = maybe_shared(env, sev, share)
    reg_kind(env, out, kind)
    return out


def gen_cap_pair(env, lo_rng, hi_rng, allow_keys=True, share=0.25):
    """(min_cap, max_cap) with min<=max pointwise.  A side whose range is (0,0) stays the scalar 0."""
    rng = env.rng
    r = rng.random()
    lo = round(rng.uniform(*lo_rng), 2)
    hi = round(rng.uniform(*hi_rng), 2)
    if hi < lo:
        lo, hi = hi, lo
    lo_fixed, hi_fixed = lo_rng[0] == lo_rng[1], hi_rng[0] == hi_rng[1]
    if getattr(env, "special_floats", False) and not (lo_fixed and hi_fixed) and rng.random() < 0.12:
        # "unlimited": an infinite capacity on one side
        return (lo, {"$t": "fl", "v": "inf"}) if (not hi_fixed and (lo_fixed or rng.random() < 0.5)) else ({"$t": "fl", "v": "-inf"}, hi)
    if getattr(env, "arr_T", None) and not (lo_fixed and hi_fixed) and rng.random() < 0.5:
        # capacities as plain arrays with one value per step
        k = env.arr_T
        lo_a = {"$t": "nd", "v": [round(lo - rng.uniform(0, 2), 2) for _ in range(k)]}
        hi_a = {"$t": "nd", "v": [round(hi + rng.uniform(0, 2), 2) for _ in range(k)]}
        if lo_fixed or hi_fixed:
            return (lo, hi_a) if lo_fixed else (lo_a, hi)
        return rng.choice([(lo_a, hi_a), (lo, hi_a), (lo_a, hi)])
    if r < 0.5 or (lo_fixed and hi_fixed):
        if rng.random() < 0.25:
            lo, hi = int(np.floor(lo)), int(np.ceil(hi))   # plain Python ints are scalars too
        return lo, hi
    if allow_keys and r < 0.6 and not lo_fixed and not hi_fixed:
        return CAP_KEYS

    def mk(pts, form, with_end, vals):
        d = {"start": tag_seq(env, pts[:-1], form)}
        if with_end:
            d["end"] = tag_seq(env, pts[1:], form)
        d["values"] = vals
        return {"$t": "sev", "d": d}
    both = r >= 0.8 and not lo_fixed and not hi_fixed
    if not both:  # one scalar, one dict beyond it
        vary_hi = (rng.random() < 0.5 or lo_fixed) and not hi_fixed
        if vary_hi:
            sev = gen_sev(env, lambda i: round(hi + rng.uniform(0, 5), 2))
            out = maybe_shared(env, sev, share)
            reg_kind(env, out, "cap_hi")
            return lo, out
        sev = gen_sev(env, lambda i: round(lo - rng.uniform(0, 5), 2))
        out = maybe_shared(env, sev, share)
        reg_kind(env, out, "cap_lo")
        return out, hi
    # both dicts on the same breakpoints
    pts = gen_breaks(env)
    n = len(pts) - 1
    form = rng.choice(["list", "list", "dti"])
    with_end = rng.random() < 0.6
    if not with_end and n >= 2 and pts[-2] + 2 * (pts[-2] - pts[-3]) < env.U1:
        with_end = True
    if not with_end and n == 1 and env.tz == "US/Eastern":
        with_end = True
    los = [round(lo - rng.uniform(0, 3), 2) for _ in range(n)]
    his = [round(hi + rng.uniform(0, 3), 2) for _ in range(n)]
    a = maybe_shared(env, mk(pts, form, with_end, los), share)
    b = maybe_shared(env, mk(pts, form, with_end, his), share)
    reg_kind(env, a, "cap_lo")
    reg_kind(env, b, "cap_hi")
    return a, b


def gen_take(env, rate, sign=1, k=None):
    """min_take / max_take dict pair for a contract whose dispatch lies in sign*[0,rate] (MW).
    Values are prorated so that both are attainable."""
    rng = env.rng
    pts = gen_breaks(env, k=k or rng.choice([1, 2, 3]), cover=False,
                     lo=env.U0 - rng.choice([0, 1, 2]) * H6, hi=env.U1 + rng.choice([0, 1, 2]) * H6)
    n = len(pts) - 1
    form = rng.choice(["list", "list", "nd_dt", "dti", "nd_obj"] + (["scalar"] if n == 1 else []))
    if form == "nd_dt" and env.param_tz is not None:
        form = "nd_obj"
    regular = None
    if rng.random() < 0.2:
        # regular daily periods given as DatetimeIndex with a frequency (and possibly a zone)
        k_ = rng.choice([1, 2, 3])
        s0_ = (env.U0 - pd.Timedelta(days=rng.choice([0, 1]))).normalize()
        pts = [s0_ + pd.Timedelta(days=i) for i in range(k_ + 1)]
        n = k_
        form = "dti"
        regular = "D"
    hours = [(pts[i + 1] - pts[i]) / pd.Timedelta(hours=1) for i in range(n)]
    mx = [round(rate * h * rng.uniform(0.3, 0.9), 3) for h in hours]
    mn = [round(m * rng.uniform(0.0, 0.6), 3) for m in mx]
    if sign < 0:
        mx, mn = [-x for x in mn], [-x for x in mx]

    def mk(vals):
        d = {"start": tag_seq(env, pts[:-1], form), "end": tag_seq(env, pts[1:], form)}
        if regular:
            d["start"]["freq"] = regular
            d["end"]["freq"] = regular
        if form == "scalar":
            d["values"] = vals[0]
        else:
            d["values"] = t_nd(vals) if rng.random() < 0.4 else vals
        return {"$t": "sev", "d": d}
    return mk(mn), mk(mx)


def gen_window(env, p_none=0.6):
    rng = env.rng
    if rng.random() < p_none:
        return None, None
    span = env.U1 - env.U0
    mode = rng.choice(["inside", "straddle_start", "straddle_end", "start_only", "end_only", "before", "after", "far_future"])
    q = lambda f: env.U0 + H6 * int((span * f) / H6)
    if mode == "inside":
        s, e = q(rng.uniform(0.05, 0.4)), q(rng.uniform(0.5, 0.95))
    elif mode == "straddle_start":
        s, e = env.U0 - 2 * H6, q(rng.uniform(0.3, 0.8))
    elif mode == "straddle_end":
        s, e = q(rng.uniform(0.2, 0.6)), env.U1 + 2 * H6
    elif mode == "start_only":
        s, e = q(rng.uniform(0.1, 0.6)), None
    elif mode == "end_only":
        s, e = None, q(rng.uniform(0.4, 0.9))
    elif mode == "far_future":
        # "never ends": an end date beyond what nanosecond timestamps can hold
        s, e = rng.choice([None, q(rng.uniform(0.1, 0.5))]), pd.Timestamp("2999-12-31")
        k = env.window_kind
        return (None if s is None else env.tag_date(s.normalize() if k == "date" else s, kind=k)), \
            ({"$t": "date", "v": "2999-12-31"} if k == "date" else
             {"$t": ("datetime" if k == "datetime" else "ts"), "v": "2999-12-31T00:00:00", "tz": None})
    elif mode == "before":
        s, e = env.U0 - 8 * H6, env.U0 - 4 * H6
    else:
        s, e = env.U1 + 4 * H6, env.U1 + 8 * H6
    if s is not None and e is not None and not s < e:
        e = s + 2 * H6
    if env.window_kind != "date" and rng.random() < 0.15:
        off = rng.choice([pd.Timedelta(minutes=30), pd.Timedelta(seconds=30)])
        s = None if s is None else s + off
        e = None if e is None else e + off
    k = env.window_kind
    if k == "date":
        s = None if s is None else s.normalize()
        e = None if e is None else e.normalize()
        if s is not None and e is not None and not s < e:
            e = s + pd.Timedelta(days=1)
    return (None if s is None else env.tag_date(s, kind=k)), (None if e is None else env.tag_date(e, kind=k))


def common_kw(env, name, wacc=True, window=True, p_window_none=0.6):
    rng = env.rng
    kw = {"name": name}
    if getattr(env, "emph", None) == "windows" and p_window_none < 1.0:
        p_window_none = 0.15
    if window:
        s, e = gen_window(env, p_window_none)
        if s is not None:
            kw["start"] = s
        if e is not None:
            kw["end"] = e
    if wacc and rng.random() < 0.4:
        kw["wacc"] = rng.choice([0.05, 0.1, 0.2])
    return kw


def coarse_freq(env, grid_freq, kw=None, p=None):
    """Coarser asset frequency; only valid (in EAO) for assets with one variable per step, without
    an own window, on grids at least two coarse steps long."""
    rng = env.rng
    p = getattr(env, "coarse_p", 0.2) if p is None else p
    if rng.random() >= p:
        return None
    if kw is not None and ("start" in kw or "end" in kw):
        # an own window next to an own frequency: EAO refuses grids the window reaches beyond (ValueError) and accepts the
        # others, so histories contain refused calls followed by accepted ones on the same object
        if rng.random() >= 0.35:
            return None
    if grid_freq in CAL_FREQS:
        return None
    opts = {"15min": ["h", "4h"], "h": ["4h", "d", "2h"], "4h": ["d", "8h"], "d": ["2d"]}[grid_freq]
    f = rng.choice(opts)
    span = env.min_span or pd.Timedelta(days=1)
    if pd.Timedelta(f if f[0].isdigit() else "1" + f) * 2 > span:
        return None
    return f


def periodicity(env, grid_freq):
    rng = env.rng
    if rng.random() >= getattr(env, "periodic_p", 0.12) or grid_freq == "d" or grid_freq in CAL_FREQS:
        return {}
    if (env.min_span or pd.Timedelta(0)) < pd.Timedelta(days=2) or env.tz not in (None, "UTC"):
        return {}
    out = {"periodicity": "d"}
    if rng.random() < 0.5:
        out["periodicity_duration"] = rng.choice(["2d", "W"])
    return out


def add_asset(env, cls, kw, aid=None):
    aid = aid or env.new_id("a")
    kw = dict(kw)
    kw["name"] = kw.get("name") or aid
    env.world["assets"][aid] = {"cls": cls, "kw": kw}
    return aid


def asset_name(env):
    """Asset names incl. numeric-looking and prefix-related ones (unique per world)."""
    n = env.counter.get("nm", 0)
    env.counter["nm"] = n + 1
    fam = getattr(env, "name_family", None)
    if fam is not None:
        # a family of names that are each other's prefix followed by digits ("gas", "gas1", "gas10", ...): anything that
        # glues a name and a number together to make a key will confuse them
        seq = ["", "1", "10", "2", "11", "21", "12", "100", "3", "13", "101", "20", "4", "14", "110", "5", "15", "111", "22", "6", "16", "7"]
        return fam + (seq[n] if n < len(seq) else "_%d" % n)
    pool = ["a%d", "A_%d", "%d", "a%d_x", "as %d"]
    odd = getattr(env, "odd_names", None)
    if odd == "case":
        return ("CHP_%d" if n % 2 == 0 else "chp_%d") % (n // 2)      # names that differ in case only (consecutive assets)
    if odd == "blanks":
        return env.rng.choice(["unit [zone  %d]", "CHP  %d", " plant %d "]) % n      # runs of blanks, brackets, surrounding blanks
    if getattr(env, "date_names", False) and n < 27:
        # names are free text: a product called after its delivery day
        return env.rng.choice(["2021-01-%02d", "2021-01-%02d 00:00:00", "2021-01-%02dT06:00:00"]) % (n + 1)
    if getattr(env, "unicode_names", False):
        pool = pool + ["Gasspeicher Süd %d", "€ %d"]     # names are free text
    return env.rng.choice(pool) % n


def gen_market(env, node, big=False):
    """Wide two-sided market contract with a spread: keeps most portfolios feasible."""
    rng = env.rng
    M = rng.choice([50., 200., 1000.]) if not big else 1000.
    kw = {"name": asset_name(env), "nodes": {"$node": node}, "min_cap": -M, "max_cap": M,
          "price": rng.choice(PRICE_KEYS), "extra_costs": rng.choice([0.5, 1., 2.5])}
    return add_asset(env, "SimpleContract", kw)


def gen_simple_contract(env, node, grid_freq="h", rich=True):
    rng = env.rng
    kw = common_kw(env, asset_name(env))
    kw["nodes"] = {"$node": node} if rng.random() < 0.7 else [{"$node": node}]
    mode = rng.choice(["both", "both", "buy", "sell", "fixed"])
    if mode == "both":
        lo, hi = gen_cap_pair(env, (-15, -1), (1, 15))
    elif mode == "buy":
        lo, hi = gen_cap_pair(env, (-15, -1), (0, 0), allow_keys=False)
    elif mode == "sell":
        lo, hi = gen_cap_pair(env, (0, 0), (1, 15), allow_keys=False)
    else:
        c = round(rng.uniform(-6, 6), 2)
        lo, hi = c, c
    kw["min_cap"], kw["max_cap"] = lo, hi
    if rng.random() < 0.85:
        kw["price"] = rng.choice(PRICE_KEYS)
    if rng.random() < 0.5:
        kw["extra_costs"] = gen_vec(env, 0., 4., "ec", str_key="ec")
    if rich:
        f = coarse_freq(env, grid_freq, kw) if (mode != "both" or "extra_costs" not in kw) else None
        if f:
            kw["freq"] = f
        else:
            kw.update(periodicity(env, grid_freq))
    return add_asset(env, "SimpleContract", kw)


def gen_contract(env, node, grid_freq="h", cls="Contract", extra=None):
    rng = env.rng
    kw = common_kw(env, asset_name(env))
    kw["nodes"] = {"$node": node}
    sign = rng.choice([1, 1, -1])
    rate = round(rng.uniform(2, 12), 2)
    if sign > 0:
        kw["min_cap"], kw["max_cap"] = 0., rate
    else:
        kw["min_cap"], kw["max_cap"] = -rate, 0.
    if rng.random() < 0.3:
        # time-varying capacity keeping the sign
        if sign > 0:
            kw["max_cap"] = maybe_shared(env, gen_sev(env, lambda i: round(rate * rng.uniform(0.6, 1.0), 2)))
            reg_kind(env, kw["max_cap"], "cap_hi")
        else:
            kw["min_cap"] = maybe_shared(env, gen_sev(env, lambda i: round(-rate * rng.uniform(0.6, 1.0), 2)))
            reg_kind(env, kw["min_cap"], "cap_lo")
    kw["price"] = rng.choice(PRICE_KEYS)
    if rng.random() < 0.4:
        kw["extra_costs"] = gen_vec(env, 0., 4., "ec", str_key="ec")
    mn, mx = gen_take(env, 0.6 * rate, sign)
    r = rng.random()
    if r < 0.4:
        kw["max_take"] = maybe_shared(env, mx, 0.3)
    elif r < 0.6:
        kw["min_take"] = maybe_shared(env, mn, 0.3)
    elif r < 0.9:
        kw["min_take"], kw["max_take"] = maybe_shared(env, mn, 0.2), maybe_shared(env, mx, 0.2)
    f = coarse_freq(env, grid_freq, kw)
    if f:
        kw["freq"] = f
    else:
        kw.update(periodicity(env, grid_freq))
    if extra:
        kw.update(extra)
    return add_asset(env, cls, kw)


def gen_multi(env, nodes, grid_freq="h"):
    rng = env.rng
    k = len(nodes)
    fac = [1.] + [rng.choice([0.5, 0.8, -0.4, 2.0, 1.0]) for _ in range(k - 1)]
    aid = gen_contract(env, nodes[0], grid_freq, cls="MultiCommodityContract")
    kw = env.world["assets"][aid]["kw"]
    kw["nodes"] = [{"$node": n} for n in nodes]
    kw["factors_commodities"] = fac
    return aid


def gen_transport(env, n_from, n_to, grid_freq="h", ext=None):
    rng = env.rng
    kw = common_kw(env, asset_name(env))
    kw["nodes"] = [{"$node": n_from}, {"$node": n_to}]
    if rng.random() < 0.85:
        kw["min_cap"], kw["max_cap"] = rng.choice([0., 0., 1.]), round(rng.uniform(2, 15), 2)
    else:
        kw["min_cap"], kw["max_cap"] = -round(rng.uniform(2, 15), 2), rng.choice([0., -1.])
    if rng.random() < 0.6:
        kw["efficiency"] = rng.choice([0.9, 0.95, 0.5, 1.1])
    if rng.random() < 0.6:
        kw["costs_const"] = rng.choice([0.1, 1., 3.])
    if rng.random() < 0.25:
        kw["costs_time_series"] = "ec"
    if ext is None:
        ext = rng.random() < 0.35
    cls = "Transport"
    if ext and kw["min_cap"] >= 0:
        cls = "ExtendedTransport"
        mn, mx = gen_take(env, 0.6 * kw["max_cap"], 1)
        r = rng.random()
        if r < 0.5:
            kw["max_take"] = maybe_shared(env, mx, 0.3)
        elif r < 0.7 and kw["min_cap"] == 0:
            kw["min_take"] = maybe_shared(env, mn, 0.3)
        else:
            kw["max_take"] = mx
            kw["min_take"] = mn
    f = coarse_freq(env, grid_freq, kw)
    if f:
        kw["freq"] = f
    else:
        kw.update(periodicity(env, grid_freq))
    return add_asset(env, cls, kw)


def gen_storage(env, nodes, grid_freq="h", mip_ok=True):
    rng = env.rng
    kw = common_kw(env, asset_name(env), p_window_none=0.75)
    kw["nodes"] = {"$node": nodes[0]} if len(nodes) == 1 else [{"$node": n} for n in nodes[:2]]
    size = round(rng.uniform(2, 40), 1)
    kw["size"] = size
    if rng.random() < 0.12:
        size = int(size) + 1
        kw["size"] = {"$t": "np_int", "v": size} if rng.random() < 0.5 else size   # numpy / Python integer
    kw["cap_in"] = round(rng.uniform(0.5, 6), 2)
    kw["cap_out"] = round(rng.uniform(0.5, 6), 2)
    lvl = rng.choice([0., 0., round(size * 0.5, 2), round(size * rng.uniform(0, 1), 2)])
    kw["start_level"] = lvl
    kw["end_level"] = rng.choice([lvl, lvl, 0.])
    if rng.random() < 0.5:
        kw["eff_in"] = rng.choice([0.9, 0.8, 0.95])
    if rng.random() < 0.3:
        kw["cost_in"] = rng.choice([0.1, 1.])
    if rng.random() < 0.3:
        kw["cost_out"] = rng.choice([0.1, 1.])
    if rng.random() < 0.25:
        kw["cost_store"] = rng.choice([0.01, 0.1])
    if rng.random() < 0.15:
        kw["inflow"] = round(min(kw["cap_out"], 1.0) * rng.uniform(0.05, 0.5), 3)
    if rng.random() < 0.3:
        kw["price"] = rng.choice(PRICE_KEYS)
    if rng.random() < (0.5 if getattr(env, "emph", None) == "storage" else 0.15) and grid_freq != "d" and grid_freq not in CAL_FREQS:
        kw["block_size"] = rng.choice(["d", "2d"])
    if mip_ok and rng.random() < 0.2:
        kw["no_simult_in_out"] = True
    if mip_ok and rng.random() < 0.12 and "inflow" not in kw and kw["start_level"] == 0 and kw["end_level"] == 0:
        kw["max_store_duration"] = rng.choice([2, 3, 4, 6])
    if "block_size" not in kw and "max_store_duration" not in kw:
        one_var = len(nodes) == 1 and not any(k in kw for k in ("eff_in", "cost_in", "cost_out"))
        f = coarse_freq(env, grid_freq, kw) if one_var else None
        if f:
            kw["freq"] = f
        else:
            kw.update(periodicity(env, grid_freq))
    return add_asset(env, "Storage", kw)


def gen_chp(env, nodes, grid_freq="h", cls=None, need_bool=False):
    """CHPAsset / Plant / CHPAsset_with_min_load_costs.  nodes: [power, (heat), (fuel)]."""
    rng = env.rng
    cls = cls or rng.choice(["CHPAsset", "CHPAsset", "Plant", "CHPAsset_with_min_load_costs"])
    kw = common_kw(env, asset_name(env), p_window_none=(1.0 if cls == "CHPAsset_with_min_load_costs" else 0.8))
    no_heat = cls == "Plant"
    if cls != "Plant" and not need_bool and rng.random() < 0.2:
        no_heat = True            # documented constructor switch: a CHP class used as plain power plant
        kw["_no_heat"] = True
    if no_heat:
        nn = nodes[:1] + (nodes[-1:] if len(nodes) > 1 and rng.random() < 0.5 else [])
    else:
        nn = nodes[:2] + (nodes[2:3] if len(nodes) > 2 and rng.random() < 0.5 else [])
    kw["nodes"] = [{"$node": n} for n in nn]
    has_fuel = (no_heat and len(nn) == 2) or (not no_heat and len(nn) == 3)
    mx = round(rng.uniform(5, 20), 1)
    mn = rng.choice([0., 0., round(mx * 0.3, 1), round(mx * 0.5, 1)])
    if need_bool and mn == 0.:
        mn = round(mx * 0.3, 1)
    kw["min_cap"], kw["max_cap"] = mn, mx
    if rng.random() < 0.2:
        kw["max_cap"] = maybe_shared(env, gen_sev(env, lambda i: round(mx * rng.uniform(1.0, 1.3), 1)))
        reg_kind(env, kw["max_cap"], "cap_hi")
    kw["extra_costs"] = gen_vec(env, 1., 30., "ec", str_key="ec", p_scalar=0.7)
    if rng.random() < 0.5:
        kw["price"] = rng.choice(PRICE_KEYS)
    if not no_heat:
        if rng.random() < 0.6:
            kw["conversion_factor_power_heat"] = gen_vec(env, 0.2, 0.9, "cf", p_scalar=0.8)
        if rng.random() < 0.6:
            kw["max_share_heat"] = gen_vec(env, 0.3, 1.5, "sh", p_scalar=0.8)
    if rng.random() < 0.35:
        kw["ramp"] = round(mx * rng.uniform(0.3, 1.0), 1)
    if rng.random() < 0.4:
        kw["start_costs"] = gen_vec(env, 1., 50., "sc", p_scalar=0.8)
    if rng.random() < 0.3:
        kw["running_costs"] = gen_vec(env, 0.5, 5., "rc", p_scalar=0.8)
    if rng.random() < 0.3:
        kw["min_runtime"] = rng.choice([2, 3])
        if rng.random() < 0.4:
            kw["time_already_running"] = rng.choice([1, 2])
    if rng.random() < 0.25:
        kw["min_downtime"] = rng.choice([2, 3])
        if kw.get("time_already_running", 0) == 0:
            kw["time_already_off"] = rng.choice([1, 2])
    if kw.get("time_already_running", 0) > 0:
        kw["last_dispatch"] = round(max(mn, mx * 0.5), 1)
    if rng.random() < getattr(env, "ramp_p", 0.15) and mn > 0:
        k = rng.choice([1, 2])
        lo = [round(mn * (i + 1) / (k + 1), 2) for i in range(k)]
        kw["start_ramp_lower_bounds"] = lo
        kw["start_ramp_upper_bounds"] = [round(x * 1.2, 2) for x in lo]
        if rng.random() < 0.5:
            kw["shutdown_ramp_lower_bounds"] = list(reversed(lo))
            kw["shutdown_ramp_upper_bounds"] = [round(x * 1.2, 2) for x in reversed(lo)]
        if rng.random() < 0.5:
            kw["ramp_freq"] = grid_freq
            if rng.random() < 0.5:
                # ramps as float arrays (a Sequence too; EAO handles them when ramp_freq equals the grid frequency)
                for k_ in ("start_ramp_lower_bounds", "start_ramp_upper_bounds", "shutdown_ramp_lower_bounds", "shutdown_ramp_upper_bounds"):
                    if k_ in kw:
                        kw[k_] = t_nd(kw[k_])
    if "start_ramp_lower_bounds" in kw and cls != "Plant" and not kw.get("_no_heat") and rng.random() < 0.4:
        # heat bounds during the ramps (same lengths as the power ramps); a fixed profile has lower == upper
        fixed_ = rng.random() < 0.5
        for side in ("start", "shutdown"):
            lo_k = "%s_ramp_lower_bounds" % side
            if lo_k in kw:
                base_ = kw[lo_k]["v"] if isinstance(kw[lo_k], dict) else kw[lo_k]
                lo_h = [round(0.5 * float(x), 2) for x in base_]
                kw[lo_k + "_heat"] = lo_h
                kw["%s_ramp_upper_bounds_heat" % side] = list(lo_h) if fixed_ else [round(x * 1.5 + 1.0, 2) for x in lo_h]
    if has_fuel:
        if rng.random() < 0.7:
            kw["fuel_efficiency"] = gen_vec(env, 0.3, 0.9, "fe", p_scalar=0.8)
        if rng.random() < 0.3:
            kw["consumption_if_on"] = round(rng.uniform(0.1, 2), 2)
        if rng.random() < 0.3:
            kw["start_fuel"] = round(rng.uniform(0.5, 5), 2)
    if cls == "CHPAsset_with_min_load_costs":
        kw["min_load_threshhold"] = round(mx * 0.6, 1)
        kw["min_load_costs"] = round(rng.uniform(1, 20), 1)
        if rng.random() < 0.2:
            kw["min_load_threshhold"] = None     # explicitly "no threshold" (the constructor's default is 0.)
    if rng.random() < 0.15:
        mnT, mxT = gen_take(env, 0.5 * mx, 1, k=1)
        kw["max_take"] = mxT
    return add_asset(env, cls, kw)


def gen_orderbook(env, node):
    rng = env.rng
    n = rng.choice([0, 1, 2, 3, 5, 8, 12])
    span = env.U1 - env.U0
    S, E, C, P = [], [], [], []
    for _ in range(n):
        s = env.U0 - H6 + H6 * rng.randint(0, max(int(span / H6), 1) + 2)
        e = s + H6 * rng.randint(1, 6)
        if rng.random() < 0.1:
            s, e = env.U1 + 2 * H6, env.U1 + 4 * H6
        S.append(s)
        E.append(e)
        C.append(round(rng.uniform(-5, 5), 2))
        P.append(round(rng.uniform(0, 100), 1))
    tz = env.tz  # order dates must be comparable with the grid's points
    form = rng.choice(["list", "list", "df", "nd"]) if tz is None else rng.choice(["list", "list", "nd"])
    if rng.random() < 0.3:
        P = [int(round(x)) for x in P]
        if rng.random() < 0.5:
            C = [int(round(x)) or 1 for x in C]
    d = {"start": [t_ts(s, tz) for s in S], "end": [t_ts(e, tz) for e in E], "capa": C, "price": P}
    if form == "nd" and n > 0:
        d["start"] = {"$t": "nd_obj", "v": [iso(s) for s in S], "tz": tz}
        d["end"] = {"$t": "nd_obj", "v": [iso(e) for e in E], "tz": tz}
        d["capa"] = {"$t": "nd_int", "v": C} if all(isinstance(x, int) for x in C) else t_nd(C)
        d["price"] = {"$t": "nd_int", "v": P} if all(isinstance(x, int) for x in P) else t_nd(P)
    kw = {"name": asset_name(env), "nodes": {"$node": node}}
    if form == "df":
        kw["orders"] = {"$t": "orders_df", "d": d}
    else:
        kw["orders"] = {"$t": "sev", "d": d}
    if rng.random() < 0.3:
        kw["full_exec"] = True if rng.random() < 0.7 else {"$t": "np_bool", "v": True}
    if rng.random() < 0.3:
        kw["wacc"] = 0.1
    return add_asset(env, "OrderBook", kw)


def gen_scaled(env, base_aid):
    rng = env.rng
    kw = common_kw(env, asset_name(env), p_window_none=0.7)
    kw["base_asset"] = {"$asset": base_aid}
    mx = rng.choice([1., 2., 5.])
    kw["max_scale"] = mx
    kw["min_scale"] = rng.choice([0., 0., 0.5, mx])
    if rng.random() < 0.5:
        kw["norm_scale"] = rng.choice([2., 0.5, 10.])
    if rng.random() < 0.7:
        kw["fix_costs"] = rng.choice([0.1, 1., 5.])
    return add_asset(env, "ScaledAsset", kw)


def gen_structured(env, inner_aids, ext_nodes, pid=None):
    rng = env.rng
    pid = pid or env.new_id("P")
    env.world["portfolios"][pid] = {"assets": list(inner_aids)}
    kw = common_kw(env, asset_name(env), p_window_none=0.6)
    kw["portfolio"] = {"$portf": pid}
    kw["nodes"] = [{"$node": n} for n in ext_nodes]
    return add_asset(env, "StructuredAsset", kw), pid


def gen_linked(env, n_power, n_heat, grid_freq="h"):
    """LinkedAsset as in tests/test_portfolio.py::test_linked_asset."""
    rng = env.rng
    a1 = gen_chp(env, [n_power, n_heat], grid_freq, cls="CHPAsset", need_bool=True)
    a2 = gen_chp(env, [n_power, n_heat], grid_freq, cls="CHPAsset", need_bool=True)
    for a in (a1, a2):  # keep the inner CHPs plain: fixed windows would break variable look-up
        kw = env.world["assets"][a]["kw"]
        for k in ("start", "end", "max_take"):
            kw.pop(k, None)
    pid = env.new_id("P")
    env.world["portfolios"][pid] = {"assets": [a1, a2]}
    w = env.world
    nm = lambda a: w["assets"][a]["kw"]["name"]
    # assets may be named by object or by name, the node by Node object or by name
    a1v = [{"$asset": a2} if rng.random() < 0.6 else nm(a2), "disp",
           {"$node": n_power} if rng.random() < 0.6 else w["nodes"][n_power]["name"]]
    a2v = [{"$asset": a1} if rng.random() < 0.6 else nm(a1), "bool_on", None]
    if rng.random() < 0.3:
        a1v, a2v = {"$t": "tuple", "v": a1v}, {"$t": "tuple", "v": a2v}
    ext_nodes = [{"$node": n_power}, {"$node": n_heat}]
    if rng.random() < 0.4:
        # the heat node stays inside the linked asset, and the linked variable sits in that internal node
        ext_nodes = [{"$node": n_power}]
        a1v_ = [a1v["v"][0] if isinstance(a1v, dict) else a1v[0], "disp", {"$node": n_heat} if rng.random() < 0.6 else w["nodes"][n_heat]["name"]]
        a1v = {"$t": "tuple", "v": a1v_} if isinstance(a1v, dict) else a1v_
    kw = {"name": asset_name(env), "portfolio": {"$portf": pid},
          "nodes": ext_nodes,
          "asset1_variable": a1v, "asset2_variable": a2v,
          "time_back": rng.choice([0, 1, 2]), "time_forward": rng.choice([0, 0, 1])}
    if rng.random() < 0.3:
        kw["asset2_time_already_running"] = rng.choice([0, 1, 2.0, "time_already_running"])
    return add_asset(env, "LinkedAsset", kw), pid


def clone_asset(env, aid):
    """A near-duplicate of an existing (non-wrapper) asset: same class, nodes, window, frequency and parameter
    objects (shared dict references stay shared), new name, ONE thing changed.  Stresses anything that is
    cached or keyed too coarsely (by window, by frequency, by id of a parameter object, by grid length)."""
    rng = env.rng
    src = env.world["assets"][aid]
    if src["cls"] in ("StructuredAsset", "LinkedAsset", "ScaledAsset"):
        return None
    kw = copy.deepcopy(src["kw"])
    kw["name"] = asset_name(env)
    what = rng.choice(["wacc", "wacc", "wacc", "wacc_eps", "price", "extra_costs", "window", "nothing"])
    if what == "wacc":
        kw["wacc"] = rng.choice([w for w in (0, 0.05, 0.1, 0.2) if w != kw.get("wacc", 0)])
    elif what == "wacc_eps":
        # almost, but not quite, the same discount rate (anything compared with a tolerance will confuse the two)
        base = kw.get("wacc", 0) or 0.05
        src["kw"]["wacc"] = base
        kw["wacc"] = base * (1 + 4e-6)
    elif what == "price" and "price" in kw:
        kw["price"] = rng.choice([k for k in PRICE_KEYS if k != kw["price"]])
    elif what == "extra_costs" and src["cls"] in ("SimpleContract", "Contract", "MultiCommodityContract"):
        kw["extra_costs"] = round(rng.uniform(0.1, 3), 2) if "freq" not in kw else kw.get("extra_costs", 0)
    elif what == "window" and src["cls"] != "OrderBook" and "freq" not in kw:
        kw.pop("start", None)
        kw.pop("end", None)
    return add_asset(env, src["cls"], kw)


def same_name_sibling(env, aid):
    """Another asset carrying the SAME name (names only have to be unique within one portfolio) but other
    numbers: exposes anything keyed by asset name across objects."""
    rng = env.rng
    src = env.world["assets"][aid]
    if src["cls"] in ("StructuredAsset", "LinkedAsset", "ScaledAsset", "OrderBook"):
        return None
    kw = copy.deepcopy(src["kw"])
    changed = False
    for k in ("min_cap", "max_cap", "size", "cap_in", "cap_out", "extra_costs", "costs_const", "cost_in", "efficiency"):
        v = kw.get(k)
        if isinstance(v, (int, float)) and not isinstance(v, bool) and v != 0 and rng.random() < 0.7:
            kw[k] = round(v * rng.choice([0.5, 0.8]), 3) if k in ("min_cap", "max_cap", "efficiency") and v > 0 and k != "min_cap" else round(v * 0.5, 3)
            changed = True
    if kw.get("min_cap") is not None and kw.get("max_cap") is not None and isinstance(kw["min_cap"], (int, float)) \
            and isinstance(kw["max_cap"], (int, float)) and kw["min_cap"] > kw["max_cap"]:
        kw["min_cap"] = kw["max_cap"]
    if isinstance(kw.get("size"), dict):
        kw["size"] = kw["size"]["v"]
    if "start_level" in kw and "size" in kw and kw["start_level"] > kw["size"]:
        kw["start_level"] = kw["end_level"] = 0.
    if "wacc" not in kw:
        kw["wacc"] = 0.1
        changed = True
    if not changed:
        return None
    return add_asset(env, src["cls"], kw)


def referenced_ids(world, oid, acc=None):
    """Transitive closure of ids an object spec refers to (for shrinking / reporting)."""
    acc = set() if acc is None else acc
    if oid in acc:
        return acc
    acc.add(oid)

    def walk(v):
        if isinstance(v, dict):
            for key in ("$node", "$dict", "$asset", "$portf"):
                if key in v:
                    referenced_ids(world, v[key], acc)
            for x in v.values():
                walk(x)
        elif isinstance(v, list):
            for x in v:
                walk(x)
    if oid[0] == "a":
        walk(world["assets"][oid]["kw"])
    elif oid[0] == "P":
        for a in world["portfolios"][oid]["assets"]:
            referenced_ids(world, a, acc)
        g = world["portfolios"][oid].get("grid")
        if g:
            acc.add(g)
    elif oid[0] == "d":
        walk(world["dicts"][oid])
    return acc


def asset_nodes(world, aid):
    """Node ids of an asset spec (scaled assets take them from the base asset)."""
    kw = world["assets"][aid]["kw"]
    if "nodes" in kw:
        n = kw["nodes"]
        n = n if isinstance(n, list) else [n]
        return [x["$node"] for x in n]
    if "base_asset" in kw:
        return asset_nodes(world, kw["base_asset"]["$asset"])
    return []


def is_mip_asset(world, aid):
    s = world["assets"][aid]
    kw = s["kw"]
    if s["cls"] in ("CHPAsset", "Plant", "CHPAsset_with_min_load_costs", "LinkedAsset"):
        return True
    if s["cls"] == "Storage" and (kw.get("no_simult_in_out") or kw.get("max_store_duration") is not None):
        return True
    if s["cls"] == "OrderBook" and kw.get("full_exec"):
        return True
    if s["cls"] == "ScaledAsset":
        return is_mip_asset(world, kw["base_asset"]["$asset"])
    if s["cls"] == "StructuredAsset":
        return any(is_mip_asset(world, a) for a in world["portfolios"][kw["portfolio"]["$portf"]]["assets"])
    return False


def gen_portfolio(env, grid_freq="h", n_assets=None, mip_ok=True, market_p=0.9, kinds=None,
                  nested_ok=True, n_nodes=None, pid=None):
    """A connected portfolio over 1-3 nodes; returns portfolio id."""
    rng = env.rng
    n_nodes = n_nodes or rng.choice([1, 2, 2, 3])
    nodes = gen_nodes(env, n_nodes)
    n_assets = n_assets or rng.randint(1, 5)
    aids = []
    for n in nodes:
        if rng.random() < market_p:
            aids.append(gen_market(env, n))
    # connect nodes
    for i in range(1, n_nodes):
        if rng.random() < 0.8:
            a, b = nodes[i - 1], nodes[i]
            if rng.random() < 0.5:
                a, b = b, a
            aids.append(gen_transport(env, a, b, grid_freq))
    base_kinds = ["simple", "simple", "contract", "storage", "storage", "orderbook", "scaled"]
    if n_nodes >= 2:
        base_kinds += ["multi", "transport", "storage2"]
        if mip_ok:
            base_kinds += ["chp", "chp"]
        if nested_ok:
            base_kinds += ["structured"]
            if mip_ok:
                base_kinds += ["linked"]
    elif mip_ok:
        base_kinds += ["plant"]
    kinds = kinds or base_kinds
    em = getattr(env, "emph", None)
    boost = {"chp": ["chp", "plant"], "orderbook": ["orderbook"], "scaled": ["scaled"], "structured": ["structured"],
             "contract": ["contract", "multi"], "storage": ["storage", "storage2"], "transport": ["transport"],
             "linked": ["linked"], "periodic": ["simple", "storage", "contract"], "coarse": ["simple", "transport", "contract"]}.get(em)
    if boost:
        extra_k = [b_ for b_ in boost if b_ in kinds]
        kinds = list(kinds) + extra_k * 4
    for _ in range(n_assets):
        k = rng.choice(kinds)
        n = rng.choice(nodes)
        others = [x for x in nodes if x != n]
        if k == "simple":
            aids.append(gen_simple_contract(env, n, grid_freq))
        elif k == "contract":
            aids.append(gen_contract(env, n, grid_freq))
        elif k == "storage":
            aids.append(gen_storage(env, [n], grid_freq, mip_ok))
        elif k == "storage2" and others:
            aids.append(gen_storage(env, [n, rng.choice(others)], grid_freq, mip_ok))
        elif k == "orderbook":
            aids.append(gen_orderbook(env, n))
        elif k == "multi" and others:
            aids.append(gen_multi(env, [n] + others[:rng.choice([1, len(others)])], grid_freq))
        elif k == "transport" and others:
            aids.append(gen_transport(env, n, rng.choice(others), grid_freq))
        elif k == "chp" and others:
            aids.append(gen_chp(env, [n] + others, grid_freq))
        elif k == "plant":
            aids.append(gen_chp(env, [n] + others, grid_freq, cls="Plant"))
        elif k == "scaled":
            bk = rng.choice(["simple", "storage", "contract", "transport"])
            if bk == "simple":
                b = gen_simple_contract(env, n, grid_freq, rich=False)
            elif bk == "storage":
                b = gen_storage(env, [n], grid_freq, mip_ok=False)
            elif bk == "contract":
                b = gen_contract(env, n, grid_freq)
            elif others:
                b = gen_transport(env, n, rng.choice(others), grid_freq, ext=False)
            else:
                b = gen_simple_contract(env, n, grid_freq, rich=False)
            aids.append(gen_scaled(env, b))
        elif k == "structured" and others:
            inner_node = gen_nodes(env, 1)[0]
            inner = [gen_transport(env, inner_node, n, grid_freq, ext=False) if rng.random() < 0.5
                     else gen_transport(env, n, inner_node, grid_freq, ext=False),
                     gen_storage(env, [inner_node], grid_freq, mip_ok=False)]
            if rng.random() < 0.5:
                inner.append(gen_simple_contract(env, inner_node, grid_freq, rich=False))
            if rng.random() < 0.4:
                inner.append(gen_simple_contract(env, n, grid_freq, rich=False))
            ext = [n]
            sa, _ = gen_structured(env, inner, ext)
            aids.append(sa)
        elif k == "linked" and others:
            la, _ = gen_linked(env, n, others[0], grid_freq)
            aids.append(la)
        else:
            aids.append(gen_simple_contract(env, n, grid_freq))
    pid = pid or env.new_id("P")
    env.world["portfolios"][pid] = {"assets": aids}
    return pid


def clean_world(world):
    w = copy.deepcopy(world)
    w.pop("_dict_kind", None)
    # cost guard: run-time and link constraints are built row by row over (steps per main time unit) x T; with
    # quarter hours counted in days one set-up of such an asset takes tens of seconds - count them in hours there
    heavy = any(a["cls"] == "LinkedAsset" or "min_runtime" in a["kw"] or "min_downtime" in a["kw"] for a in w["assets"].values())
    if heavy:
        for g in w["grids"].values():
            if g["freq"] == "15min" and g["mtu"] == "d":
                g["mtu"] = "h"
    return w


# --------------------------------------------------------------------------- world transformations (applied to finished worlds)


def rename_price_key(world, old, new):
    """Another name for one price column, wherever assets refer to it and in every price table."""
    def walk(v):
        if isinstance(v, dict):
            return {k: walk(x) for k, x in v.items()}
        if isinstance(v, list):
            return [walk(x) for x in v]
        return new if (isinstance(v, str) and v == old) else v
    for a in world["assets"].values():
        a["kw"] = {k: (v if k == "name" else walk(v)) for k, v in a["kw"].items()}
    for d in list(world.get("dicts", {})):
        world["dicts"][d] = walk(world["dicts"][d])
    for p in world["prices"].values():
        if old in p["cols"]:
            p["cols"] = {(new if k == old else k): v for k, v in p["cols"].items()}


def make_arrays_constant(world, rng, p=0.5):
    """Arrays (numbers and dates) whose entries are all equal: an order book whose orders share one delivery period, a flat profile."""
    n = [0]

    def walk(v):
        if isinstance(v, dict):
            if v.get("$t") in ("nd", "nd32", "nd_int", "nd_dt", "dti", "nd_obj") and isinstance(v.get("v"), list) and len(v["v"]) >= 2 \
                    and rng.random() < p:
                v = dict(v)
                v["v"] = [v["v"][0]] * len(v["v"])
                v.pop("freq", None)
                n[0] += 1
                return v
            return {k: walk(x) for k, x in v.items()}
        if isinstance(v, list):
            return [walk(x) for x in v]
        return v
    for a in world["assets"].values():
        # (ramp profiles must stay ordered: lower <= upper, which the constructors assert)
        a["kw"] = {k: (v if "ramp" in k else walk(v)) for k, v in a["kw"].items()}
    for d in list(world.get("dicts", {})):
        world["dicts"][d] = walk(world["dicts"][d])
    return n[0]
